/-
C04 — executable model of the two interpolating warps and their `pseudoinverse` (Mathlib-free).

Piecewise affine (menpo/transform/piecewiseaffine/base.py)
* `alpha_beta`                      : barycentric coordinates from the dot products, as coded
* `containment_from_alpha_beta`     : `alpha >= 0 ∧ beta >= 0 ∧ alpha + beta <= 1`; a point contained in several
                                      triangles gets the LAST one (`index[point_index] = tri_index`);
                                      no triangle ⇒ `TriangleContainmentError` (`none`)
* `AbstractPWA._apply`              : `ti + alpha * tij + beta * tik`
* `AbstractPWA.pseudoinverse`       : `type(self)(TriMesh(target.points, source.trilist), PointCloud(source.points))`

Thin plate splines (menpo/transform/thinplatesplines.py, rbf.py)
* system matrix `L = [[K, P], [Pᵀ, 0]]`, `K = kernel.apply(source.points)`, i.e. `K i j = U(‖source_i − c_j‖)`
  for the kernel centres `c = kernel.c`
* `_build_coefficients`             : `inv_l = U_[:, :keep] · (1/s · Vh)`; with every singular value above the floor this is
                                      `U S⁻¹ Vh = (L⁻¹)ᵀ` — the inverse only if `L` is symmetric.  The model therefore takes
                                      the coefficients to be the solution `C` of `Lᵀ C = [V; 0]`.
* `_apply`                          : `C[-3] + C[-2] x + C[-1] y + kernel.apply(points) · C[:-3]`
* `pseudoinverse` (as coded)        : `ThinPlateSplines(self.target, self.source, kernel=self.kernel)` — the kernel object,
                                      hence its centres, is re-used  (`pinvCoded`)
* `pseudoinverse` (repaired)        : kernel of the same class re-centred on the new source  (`pinvFixed`)

The radial function (`r² log r²` or `r² log r`) is irrational; it is a parameter `φ : Rat → Rat` of the squared
distance (the driver receives the values the real kernel classes returned).  The SVD based solve is library code:
it is modelled by a *checked* exact solve (`solve` returns `C` only after verifying `M · C = Y`).
-/
import MenpoModel.Core.C04Homog

namespace MenpoModel.C04

structure P2 where
  x : Rat
  y : Rat
  deriving DecidableEq, Repr

namespace P2
instance : Add P2 := ⟨fun a b => ⟨a.x + b.x, a.y + b.y⟩⟩
instance : Sub P2 := ⟨fun a b => ⟨a.x - b.x, a.y - b.y⟩⟩
instance : HMul Rat P2 P2 := ⟨fun k a => ⟨k * a.x, k * a.y⟩⟩
instance : Inhabited P2 := ⟨⟨0, 0⟩⟩
def dot (a b : P2) : Rat := a.x * b.x + a.y * b.y
end P2

/-! ## piecewise affine -/

structure Tri where
  a : P2
  b : P2
  c : P2
  deriving DecidableEq, Repr

/-- `alpha_beta` for one point and one triangle -/
def Tri.ab (s : Tri) (p : P2) : Rat × Rat :=
  let ij := s.b - s.a
  let ik := s.c - s.a
  let ip := p - s.a
  let jj := ij.dot ij
  let kk := ik.dot ik
  let jk := ij.dot ik
  let pj := ip.dot ij
  let pk := ip.dot ik
  let dd := 1 / (jj * kk - jk * jk)
  ((kk * pj - jk * pk) * dd, (jj * pk - jk * pj) * dd)

def Tri.contains (s : Tri) (p : P2) : Bool :=
  decide (0 ≤ (s.ab p).1) && decide (0 ≤ (s.ab p).2) && decide ((s.ab p).1 + (s.ab p).2 ≤ 1)

/-- the affine piece of the triangle pair `(s, t)`: barycentric coordinates in `s`, rebuilt in `t` -/
def piece (s t : Tri) (p : P2) : P2 :=
  t.a + ((s.ab p).1 * (t.b - t.a) + (s.ab p).2 * (t.c - t.a))

/-- a PWA is the list of (source triangle, target triangle) pairs, in trilist order -/
abbrev PWA := List (Tri × Tri)

/-- the triangle pair `_apply` uses for `p`: the last one whose source triangle contains `p` -/
def PWA.lookup (m : PWA) (p : P2) : Option (Tri × Tri) := (m.filter fun q => q.1.contains p).getLast?

def PWA.apply (m : PWA) (p : P2) : Option P2 := (m.lookup p).map fun q => piece q.1 q.2 p

def PWA.pinv (m : PWA) : PWA := m.map fun q => (q.2, q.1)

/-- mesh level: point arrays and the trilist -/
structure PWAMesh where
  src : List P2
  tgt : List P2
  tris : List (Nat × Nat × Nat)

def triOf (pts : List P2) (t : Nat × Nat × Nat) : Tri :=
  ⟨pts.getD t.1 default, pts.getD t.2.1 default, pts.getD t.2.2 default⟩

def PWAMesh.toPWA (m : PWAMesh) : PWA := m.tris.map fun t => (triOf m.src t, triOf m.tgt t)

/-- `AbstractPWA.pseudoinverse`: the same trilist on the target points, mapping to the source points -/
def PWAMesh.pinv (m : PWAMesh) : PWAMesh := { src := m.tgt, tgt := m.src, tris := m.tris }

/-! ## thin plate splines -/

/-- rows of the system: the `n` landmarks, then the three affine side conditions -/
abbrev Idx (n : Nat) := Fin n ⊕ Fin 3

def sumIdx {n : Nat} (f : Idx n → Rat) : Rat := sumFin (fun i => f (.inl i)) + sumFin (fun a => f (.inr a))

def d2 (a b : P2) : Rat := (a.x - b.x) * (a.x - b.x) + (a.y - b.y) * (a.y - b.y)

/-- `RadialBasisFunction._apply` entry: `φ` of the squared distance, singularities reset to 0 -/
def kern (φ : Rat → Rat) (p c : P2) : Rat := if d2 p c = 0 then 0 else φ (d2 p c)

/-- `[1, x, y]` -/
def pRow (s : P2) (a : Fin 3) : Rat := if a.val = 0 then 1 else if a.val = 1 then s.x else s.y

/-- `self.l` -/
def sysL {n : Nat} (φ : Rat → Rat) (src ctr : Fin n → P2) : Idx n → Idx n → Rat
  | .inl i, .inl j => kern φ (src i) (ctr j)
  | .inl i, .inr a => pRow (src i) a
  | .inr a, .inl j => pRow (src j) a
  | .inr _, .inr _ => 0

/-- `self.y.T` -/
def rhs {n : Nat} (tgt : Fin n → P2) : Idx n → P2
  | .inl i => tgt i
  | .inr _ => ⟨0, 0⟩

/-! ### checked exact linear solve (stands for the library's SVD solve) -/

def idxList (n : Nat) : List (Idx n) :=
  (List.finRange n).map Sum.inl ++ (List.finRange 3).map Sum.inr

/-- one Gauss–Jordan sweep over the columns `cols`; rows are `coefficients ++ right-hand sides` -/
def gaussStep (rows : List (List Rat)) : List Nat → List (List Rat)
  | [] => rows
  | c :: cs =>
    -- pivot: first row at position ≥ c with a non-zero entry in column c
    let idxs := (List.range rows.length).filter fun r => decide (c ≤ r) && decide ((rows.getD r []).getD c 0 ≠ 0)
    match idxs with
    | [] => gaussStep rows cs
    | r :: _ =>
      let prow := rows.getD r []
      let crow := rows.getD c []
      let swapped := (List.range rows.length).map fun k =>
        if k = c then prow else if k = r then crow else rows.getD k []
      let pv := prow.getD c 0
      let np := prow.map fun v => v / pv
      let elim := (List.range swapped.length).map fun k =>
        if k = c then np else
          let row := swapped.getD k []
          let f := row.getD c 0
          List.zipWith (fun v w => v - f * w) row np
      gaussStep elim cs

/-- solution of `M · C = Y` (two right-hand sides: the x and the y coordinates), verified before it is returned -/
def solve {n : Nat} (M : Idx n → Idx n → Rat) (Y : Idx n → P2) : Option (Idx n → P2) :=
  let ix := idxList n
  let rows := ix.map fun i => ix.map (fun j => M i j) ++ [(Y i).x, (Y i).y]
  let red := gaussStep rows (List.range ix.length)
  let m := ix.length
  let pos : Idx n → Nat := fun i => match i with | .inl k => k.val | .inr a => n + a.val
  let C : Idx n → P2 := fun j => ⟨(red.getD (pos j) []).getD m 0, (red.getD (pos j) []).getD (m + 1) 0⟩
  if ix.all (fun i => decide (sumIdx (fun j => M i j * (C j).x) = (Y i).x) &&
                      decide (sumIdx (fun j => M i j * (C j).y) = (Y i).y))
  then some C else none

/-- a spline: landmarks and the centres of its kernel object (`kernel.c`) -/
structure TPS (n : Nat) where
  src : Fin n → P2
  tgt : Fin n → P2
  ctr : Fin n → P2

/-- `ThinPlateSplines(source, target)`: default kernel `R2LogR2RBF(source.points)` (or any kernel class on them) -/
def TPS.fit {n : Nat} (src tgt : Fin n → P2) : TPS n := ⟨src, tgt, src⟩

/-- `_build_coefficients`: `(L⁻¹)ᵀ [V; 0]`, i.e. the solution of `Lᵀ C = [V; 0]` -/
def TPS.coef {n : Nat} (φ : Rat → Rat) (t : TPS n) : Option (Idx n → P2) :=
  solve (fun i j => sysL φ t.src t.ctr j i) (rhs t.tgt)

/-- `_apply` with given coefficients -/
def TPS.eval {n : Nat} (φ : Rat → Rat) (t : TPS n) (C : Idx n → P2) (p : P2) : P2 :=
  ⟨sumIdx (fun j => (match j with | .inl k => kern φ p (t.ctr k) | .inr a => pRow p a) * (C j).x),
   sumIdx (fun j => (match j with | .inl k => kern φ p (t.ctr k) | .inr a => pRow p a) * (C j).y)⟩

def TPS.apply {n : Nat} (φ : Rat → Rat) (t : TPS n) (p : P2) : Option P2 :=
  (t.coef φ).map fun C => t.eval φ C p

/-- `pseudoinverse` as coded: source and target exchanged, the kernel object (centres) kept -/
def TPS.pinvCoded {n : Nat} (t : TPS n) : TPS n := ⟨t.tgt, t.src, t.ctr⟩

/-- `pseudoinverse` repaired: source and target exchanged, kernel re-centred on the new source -/
def TPS.pinvFixed {n : Nat} (t : TPS n) : TPS n := ⟨t.tgt, t.src, t.tgt⟩

end MenpoModel.C04
