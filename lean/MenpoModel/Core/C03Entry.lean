/-
C03 — the vocabulary the *translated* entry points of the composition machinery are written in
(core Lean only).  `harness/trans_c03.py` rewrites the source text of

  Transform.compose_before / compose_after                       (menpo/transform/base/__init__.py)
  ComposableTransform.compose_before / compose_after / compose_before_inplace / compose_after_inplace,
  ComposableTransform._compose_before / _compose_after, TransformChain._compose_*_inplace
                                                                  (menpo/transform/base/composable.py)
  Homogeneous._compose_*_inplace, from_vector, compose_after_from_vector_inplace, _set_h_matrix
  Affine._set_h_matrix, AlignmentAffine._set_h_matrix, the five as_non_alignment,
  Affine.decompose, DiscreteAffine.decompose, the Scale factory   (menpo/transform/homogeneous/*.py)

into `Generated/C03Entry.lean` on every run, over the words defined here:

* `Obj`            an object as a method body sees it: the reference it is known by in the store
                   (`none`: a temporary that is in no store cell yet, e.g. `self.copy()`,
                   `self.from_vector(v)`) and the content of its cell;
* `gateCompose` / `gateInplace`   `isinstance(t, self.composes_with)` / `…composes_inplace_with`;
* `callMeth`       Python's attribute lookup on a method: the body of the class the *method table*
                   (regenerated from the live MROs, `methodTable_ok`) names as supplier;
* `onFam` / `onChain` / `mkChain` / `famFromVec`   the calling conventions between the object level
                   and the bodies that work on matrices / member lists (`np.dot` refusing operands
                   of different size lives in `onFam`).

`GenProps/C03Entry.lean` proves the translated entry points equal to `composeCell`, `inplaceCell`,
`fromVectorCell`, `chainAdd`, `rawCompose`, `nonAlignmentMatrix`, `decomposeLeaves`, `scaleFactory`,
the functions all C03 theorems are about.
-/
import MenpoModel.Core.C03Compose

namespace MenpoModel.C03

/-- an object as the body of a method sees it -/
structure Obj where
  /-- its reference in the store; `none` for a temporary (a fresh copy, `from_vector(v)`) -/
  ref : Option Nat
  cell : Cell

/-- `x.copy()`: the same content in a new object, which no store cell holds yet -/
def Obj.copied (o : Obj) : Obj := ⟨none, o.cell⟩

/-- the same object after one of its methods changed its content -/
def Obj.withCell (o : Obj) (c : Cell) : Obj := ⟨o.ref, c⟩

/-- what a non-in-place method hands back must be a *new* object: its body worked on a copy.
Handing back an object the store already holds (after changing it in place) has no counterpart in
the model (`composeCell` appends a cell and leaves every existing cell as it was), so the
translation of such a body does not equal the model. -/
def Obj.fresh (o : Obj) : Except Err Obj :=
  match o.ref with
  | none => .ok o
  | some _ => .error .badRef

/-- the class whose methods run on a plain transform.  Opaque leaves are thin-plate splines or
piecewise affine transforms; the two resolve every composition method alike
(`GenProps.C03.pwa_like_tps`). -/
def Plain.kls : Plain → Kls
  | .opq _ => .ThinPlateSplines
  | _ => .WithDims

def Cell.kls : Cell → Kls
  | .fam _ t => .fam t.cls
  | .chain _ => .TransformChain
  | .leaf p => p.kls

/-- The composition gates of the classes outside the family, per class
`(composes_with, composes_inplace_with)`: `some true` = the attribute is `Transform` itself (every
object is an instance), `none` = the class has no such attribute (it is not a
`ComposableTransform`).  Regenerated from live instances as `Generated.C03.otherGates`
(obligation `otherGates_ok`). -/
def expectedOtherGates : List (Kls × Option Bool × Option Bool) :=
  [(.TransformChain, some true, some true), (.WithDims, none, none),
   (.ThinPlateSplines, none, none), (.PiecewiseAffine, none, none)]

def otherGate (k : Kls) : Option Bool × Option Bool :=
  ((expectedOtherGates.find? fun r => r.1 == k).map (·.2)).getD (none, none)

/-- `isinstance(t, self.composes_with)`.  A family object asks its class table row (`Homogeneous`
for all twelve classes: chains and plain transforms are not instances); `TransformChain` inherits
`ComposableTransform.composes_with = self.composes_inplace_with = Transform`, which every object
is; a plain `Transform` has no such attribute (never asked: its `compose_before` is
`Transform.compose_before`). -/
def gateCompose (tbl : ClassTable) (self t : Cell) : Bool :=
  match self with
  | .fam _ s =>
    match t with
    | .fam _ t' => accepts tbl (composesWith tbl s.cls) t'.cls
    | _ => false
  | c => (otherGate c.kls).1.getD false

/-- `isinstance(t, self.composes_inplace_with)` -/
def gateInplace (tbl : ClassTable) (self t : Cell) : Bool :=
  match self with
  | .fam _ s =>
    match t with
    | .fam _ t' => accepts tbl (inplaceWith tbl s.cls) t'.cls
    | _ => false
  | c => (otherGate c.kls).2.getD false

theorem gateCompose_fam (tbl : ClassTable) {d d' : Nat} (s : HT d) (t : HT d') :
    gateCompose tbl (.fam d s) (.fam d' t) = accepts tbl (composesWith tbl s.cls) t.cls := rfl
theorem gateInplace_fam (tbl : ClassTable) {d d' : Nat} (s : HT d) (t : HT d') :
    gateInplace tbl (.fam d s) (.fam d' t) = accepts tbl (inplaceWith tbl s.cls) t.cls := rfl
theorem gateCompose_fam_chain (tbl : ClassTable) {d : Nat} (s : HT d) (ns : List Nat) :
    gateCompose tbl (.fam d s) (.chain ns) = false := rfl
theorem gateInplace_fam_chain (tbl : ClassTable) {d : Nat} (s : HT d) (ns : List Nat) :
    gateInplace tbl (.fam d s) (.chain ns) = false := rfl
theorem gateCompose_fam_leaf (tbl : ClassTable) {d : Nat} (s : HT d) (p : Plain) :
    gateCompose tbl (.fam d s) (.leaf p) = false := rfl
theorem gateInplace_fam_leaf (tbl : ClassTable) {d : Nat} (s : HT d) (p : Plain) :
    gateInplace tbl (.fam d s) (.leaf p) = false := rfl
theorem gateCompose_chain (tbl : ClassTable) (ms : List Nat) (t : Cell) :
    gateCompose tbl (.chain ms) t = true := rfl
theorem gateInplace_chain (tbl : ClassTable) (ms : List Nat) (t : Cell) :
    gateInplace tbl (.chain ms) t = true := rfl
theorem gateCompose_leaf (tbl : ClassTable) (p : Plain) (t : Cell) :
    gateCompose tbl (.leaf p) t = false := by cases p <;> rfl
theorem gateInplace_leaf (tbl : ClassTable) (p : Plain) (t : Cell) :
    gateInplace tbl (.leaf p) t = false := by cases p <;> rfl

/-- attribute lookup of method `m` on an object of class `k`: the body written in the class the
method table names (`none`: no class of the MRO defines `m`, or the table names a class whose body
was not translated) -/
def callMeth {α : Type} (mt : MethodTable) (m : Meth) (k : Kls) (bodies : List (Sup × α)) : Option α :=
  (supplier mt k m).bind fun s => (bodies.find? fun p => p.1 == s).map (·.2)

/-- `self.m(t)` between two objects -/
def callObj {β : Type} (mt : MethodTable) (m : Meth) (bodies : List (Sup × (Obj → β → Except Err Cell)))
    (self : Obj) (t : β) : Except Err Cell :=
  match callMeth mt m self.cell.kls bodies with
  | some f => f self t
  | none => .error .noMethod

/-- a body that works on the matrices of two family objects (`self.h_matrix`, `t.h_matrix`), run on
two objects: anything else has no `h_matrix` (`AttributeError`), and `np.dot` refuses matrices of
different size (`ValueError`) -/
def onFam (f : {d : Nat} → HT d → HT d → Option (HT d)) (self t : Obj) : Except Err Cell :=
  match self.cell, t.cell with
  | .fam d s, .fam d' t' =>
    if h : d' = d then
      match f s (h ▸ t') with
      | some r => .ok (.fam d r)
      | none => .error .fuel
    else .error .shape
  | _, _ => .error .noMethod

/-- a body that works on the member list of a chain (`self.transforms`) and stores a reference to
the operand; a temporary has no reference the model could store -/
def onChain (f : List Nat → Nat → List Nat) (self t : Obj) : Except Err Cell :=
  match self.cell, t.ref with
  | .chain ms, some b => .ok (.chain (f ms b))
  | .chain _, none => .error .badRef
  | _, _ => .error .noMethod

/-- `TransformChain([x, y, …])` -/
def mkChain : List (Option Nat) → Except Err Cell
  | rs => if rs.all Option.isSome then .ok (.chain (rs.filterMap id)) else .error .badRef

/-- `x._from_vector_inplace(v)` on an object: the class-specific parametrisation `fromVec`
(numpy code, modelled in `Core/C03Compose.lean` and compared case by case with the real
`from_vector`) -/
def famFromVec (o : Obj) (v : List Rat) : Except Err Obj :=
  match o.cell with
  | .fam d s => (fromVec s.cls s.M v).map fun M => o.withCell (.fam d ⟨s.cls, M⟩)
  | _ => .error .noMethod

/-- `functools.reduce(f, seq, init)` for a step that may raise -/
def pyReduce {α β : Type} (f : α → β → Option α) : List β → α → Option α
  | [], acc => some acc
  | b :: bs, acc => (f acc b).bind (pyReduce f bs)

/-- `np.all(s)`: no factor is zero -/
def vecAllNonzero {d : Nat} (s : Vec d) : Bool := (List.finRange d).all fun i => s i != 0

end MenpoModel.C03
