/-
C03 — executable model of menpo's composition machinery (core Lean only).

Transcribed branch for branch from
  menpo/transform/base/__init__.py        Transform.compose_before/after          (chain fallback)
  menpo/transform/base/composable.py      ComposableTransform.compose_* , TransformChain
  menpo/transform/homogeneous/base.py     Homogeneous._compose_before/_after (isinstance ladder,
                                          mutual recursion, alignment stripping), _compose_*_inplace
  menpo/transform/homogeneous/*.py        as_non_alignment of the five alignment classes

Everything that is *class structure* (family MRO, alignment flag, `composes_inplace_with`,
`composes_with`, the class `as_non_alignment()` returns) is read from a `ClassTable`; the table
extracted from the live classes is `Generated.C03.classTable`, the table the theorems are about
is `expectedClassTable`, and `GenProps/C03.lean` obliges the two to be equal.

Python objects are cells of a store (`List Cell`, the index is the reference): a family object
holds its dimension, class and matrix, a `TransformChain` holds *references* to its members (so
that later in-place edits of a member are seen through the chain, exactly as in Python), a
`WithDims` holds its index list (it changes the dimension of the points), thin-plate splines and
piecewise affine transforms are opaque leaves.
-/
import MenpoModel.Core.C03Mat
import MenpoModel.Core.PyData

namespace MenpoModel.C03

/-- the twelve classes of the homogeneous family (`menpo.transform` exports exactly these) -/
inductive HCls
  | Homogeneous | Affine | Similarity | Rotation | Translation | UniformScale | NonUniformScale
  | AlignmentAffine | AlignmentSimilarity | AlignmentRotation | AlignmentTranslation
  | AlignmentUniformScale
deriving DecidableEq, Repr, Inhabited

def HCls.all : List HCls :=
  [.Homogeneous, .Affine, .Similarity, .Rotation, .Translation, .UniformScale, .NonUniformScale,
   .AlignmentAffine, .AlignmentSimilarity, .AlignmentRotation, .AlignmentTranslation,
   .AlignmentUniformScale]

def HCls.name : HCls → String
  | .Homogeneous => "Homogeneous" | .Affine => "Affine" | .Similarity => "Similarity"
  | .Rotation => "Rotation" | .Translation => "Translation" | .UniformScale => "UniformScale"
  | .NonUniformScale => "NonUniformScale" | .AlignmentAffine => "AlignmentAffine"
  | .AlignmentSimilarity => "AlignmentSimilarity" | .AlignmentRotation => "AlignmentRotation"
  | .AlignmentTranslation => "AlignmentTranslation"
  | .AlignmentUniformScale => "AlignmentUniformScale"

def HCls.ofName (s : String) : Option HCls := HCls.all.find? (fun c => c.name == s)

/-- one row of the class table, as `harness/extract_c03.py` reads it from the live classes -/
structure ClsRow where
  cls : HCls
  /-- `cls.__mro__` restricted to the family, in MRO order, `cls` first -/
  ancestors : List HCls
  /-- `issubclass(cls, HomogFamilyAlignment)` -/
  isAlignment : Bool
  /-- `instance.composes_inplace_with` (tuple flattened), restricted to the family -/
  inplaceWith : List HCls
  /-- `instance.composes_with`, restricted to the family -/
  composesWith : List HCls
  /-- class of `instance.as_non_alignment()` for alignment classes, of `instance.copy()` otherwise -/
  strip : HCls
deriving DecidableEq, Repr

abbrev ClassTable := List ClsRow

open HCls in
/-- The class structure the theorems are about: the live hierarchy with the in-place gate of
`Similarity` and `Translation` closed under composition (notes/fixes/C03-inplace-compose-closed.diff). -/
def expectedClassTable : ClassTable := [
  ⟨Homogeneous, [Homogeneous], false, [Homogeneous], [Homogeneous], Homogeneous⟩,
  ⟨Affine, [Affine, Homogeneous], false, [Affine], [Homogeneous], Affine⟩,
  ⟨Similarity, [Similarity, Affine, Homogeneous], false, [Similarity], [Homogeneous], Similarity⟩,
  ⟨Rotation, [Rotation, Similarity, Affine, Homogeneous], false, [Rotation], [Homogeneous], Rotation⟩,
  ⟨Translation, [Translation, Similarity, Affine, Homogeneous], false, [Translation], [Homogeneous],
    Translation⟩,
  ⟨UniformScale, [UniformScale, Similarity, Affine, Homogeneous], false, [UniformScale], [Homogeneous],
    UniformScale⟩,
  ⟨NonUniformScale, [NonUniformScale, Affine, Homogeneous], false, [NonUniformScale, UniformScale],
    [Homogeneous], NonUniformScale⟩,
  ⟨AlignmentAffine, [AlignmentAffine, Affine, Homogeneous], true, [Affine], [Homogeneous], Affine⟩,
  ⟨AlignmentSimilarity, [AlignmentSimilarity, Similarity, Affine, Homogeneous], true, [Similarity],
    [Homogeneous], Similarity⟩,
  ⟨AlignmentRotation, [AlignmentRotation, Rotation, Similarity, Affine, Homogeneous], true, [Rotation],
    [Homogeneous], Rotation⟩,
  ⟨AlignmentTranslation, [AlignmentTranslation, Translation, Similarity, Affine, Homogeneous], true,
    [Translation], [Homogeneous], Translation⟩,
  ⟨AlignmentUniformScale, [AlignmentUniformScale, UniformScale, Similarity, Affine, Homogeneous], true,
    [UniformScale], [Homogeneous], UniformScale⟩]

open HCls in
/-- The class structure of the tree as it was when this model was written: `Similarity` and
`Translation` (and their alignment variants) inherit `composes_inplace_with = Affine`.
Kept for the refutation-by-witness theorems in `Props/C03.lean`. -/
def codedClassTable : ClassTable := [
  ⟨Homogeneous, [Homogeneous], false, [Homogeneous], [Homogeneous], Homogeneous⟩,
  ⟨Affine, [Affine, Homogeneous], false, [Affine], [Homogeneous], Affine⟩,
  ⟨Similarity, [Similarity, Affine, Homogeneous], false, [Affine], [Homogeneous], Similarity⟩,
  ⟨Rotation, [Rotation, Similarity, Affine, Homogeneous], false, [Rotation], [Homogeneous], Rotation⟩,
  ⟨Translation, [Translation, Similarity, Affine, Homogeneous], false, [Affine], [Homogeneous],
    Translation⟩,
  ⟨UniformScale, [UniformScale, Similarity, Affine, Homogeneous], false, [UniformScale], [Homogeneous],
    UniformScale⟩,
  ⟨NonUniformScale, [NonUniformScale, Affine, Homogeneous], false, [NonUniformScale, UniformScale],
    [Homogeneous], NonUniformScale⟩,
  ⟨AlignmentAffine, [AlignmentAffine, Affine, Homogeneous], true, [Affine], [Homogeneous], Affine⟩,
  ⟨AlignmentSimilarity, [AlignmentSimilarity, Similarity, Affine, Homogeneous], true, [Affine],
    [Homogeneous], Similarity⟩,
  ⟨AlignmentRotation, [AlignmentRotation, Rotation, Similarity, Affine, Homogeneous], true, [Rotation],
    [Homogeneous], Rotation⟩,
  ⟨AlignmentTranslation, [AlignmentTranslation, Translation, Similarity, Affine, Homogeneous], true,
    [Affine], [Homogeneous], Translation⟩,
  ⟨AlignmentUniformScale, [AlignmentUniformScale, UniformScale, Similarity, Affine, Homogeneous], true,
    [UniformScale], [Homogeneous], UniformScale⟩]

def rowOf (tbl : ClassTable) (c : HCls) : Option ClsRow := tbl.find? (fun r => r.cls == c)

/-- `isinstance(obj_of_class a, b)` -/
def isSub (tbl : ClassTable) (a b : HCls) : Bool :=
  match rowOf tbl a with
  | some r => r.ancestors.contains b
  | none => false

/-- `isinstance(obj_of_class c, tuple(ws))` -/
def accepts (tbl : ClassTable) (ws : List HCls) (c : HCls) : Bool := ws.any (fun w => isSub tbl c w)

def isAlign (tbl : ClassTable) (c : HCls) : Bool :=
  match rowOf tbl c with
  | some r => r.isAlignment
  | none => false

def stripCls (tbl : ClassTable) (c : HCls) : HCls :=
  match rowOf tbl c with
  | some r => r.strip
  | none => c

def inplaceWith (tbl : ClassTable) (c : HCls) : List HCls :=
  match rowOf tbl c with
  | some r => r.inplaceWith
  | none => []

def composesWith (tbl : ClassTable) (c : HCls) : List HCls :=
  match rowOf tbl c with
  | some r => r.composesWith
  | none => []

/-- a family object: its class and its `h_matrix` -/
structure HT (d : Nat) where
  cls : HCls
  M : Mat (d + 1)

variable {d : Nat}

/-- `_apply` by method resolution: `Affine._apply` for every subclass of `Affine`,
`Homogeneous._apply` otherwise -/
def applyHT (tbl : ClassTable) (t : HT d) (x : Vec d) : Option (Vec d) :=
  if isSub tbl t.cls .Affine then some (affApply t.M x) else projApply t.M x

/-- the matrix the object returned by `as_non_alignment()` holds:
`Affine(self.h_matrix)`, `Similarity(self.h_matrix)`, `Rotation(self.rotation_matrix)`,
`Translation(self.translation_component)`, `UniformScale(self.scale, self.n_dims)`;
`copy()` for the other classes -/
def nonAlignmentMatrix (c : HCls) (M : Mat (d + 1)) : Mat (d + 1) :=
  match c with
  | .AlignmentRotation => mkAffine (lin M) (zeroVec d)
  | .AlignmentTranslation => mkAffine (Mat.one d) (trans M)
  | .AlignmentUniformScale => mkAffine (scalarMat d (M 0 0)) (zeroVec d)
  | _ => M

inductive Dir | before | after
deriving DecidableEq, Repr

def Dir.flip : Dir → Dir
  | .before => .after
  | .after => .before

/-- `Homogeneous._compose_before_inplace` : `dot(t.h, self.h)`;
    `Homogeneous._compose_after_inplace` : `dot(self.h, t.h)` -/
def rawCompose (dir : Dir) (selfM tM : Mat (d + 1)) : Mat (d + 1) :=
  match dir with
  | .before => Mat.mul tM selfM
  | .after => Mat.mul selfM tM

/-- `Homogeneous._compose_before(self, t)` / `_compose_after(self, t)`, the isinstance ladder.
The Python methods call each other (`t._compose_after(self)`); the recursion is on fuel,
`none` = fuel exhausted (theorem `ladder_total`: 2 always suffices). -/
def ladder (tbl : ClassTable) : Nat → Dir → HT d → HT d → Option (HT d)
  | 0, _, _, _ => none
  | fuel + 1, dir, s, t =>
    if isSub tbl t.cls s.cls then
      -- "He is a subclass of me - I can swallow him" (alignment nature stripped first)
      let new : HT d :=
        if isAlign tbl s.cls then ⟨stripCls tbl s.cls, nonAlignmentMatrix s.cls s.M⟩ else s
      some ⟨new.cls, rawCompose dir new.M t.M⟩
    else if isSub tbl s.cls t.cls then
      -- "I am a subclass of him - he can swallow me"
      ladder tbl fuel dir.flip t s
    else if isSub tbl s.cls .Similarity && isSub tbl t.cls .Similarity then
      some ⟨.Similarity, rawCompose dir s.M t.M⟩
    else if isSub tbl s.cls .Affine && isSub tbl t.cls .Affine then
      some ⟨.Affine, rawCompose dir s.M t.M⟩
    else
      some ⟨.Homogeneous, rawCompose dir s.M t.M⟩

def ladderFuel : Nat := 2

/-! ### the store

Python objects are cells of one store; the reference of an object is its index.  The store is
*heterogeneous in dimension*: a family object carries its own dimension `d` (its `h_matrix` is
`(d+1) × (d+1)`), a chain holds references, a plain `Transform` is either opaque (thin-plate spline,
piecewise affine) or a `WithDims` slicer, which changes the dimension of the points it is given. -/

/-- a `Transform` without native composition -/
inductive Plain
  /-- uninterpreted (thin-plate spline, piecewise affine): its map is a parameter `env k` -/
  | opq (k : Nat)
  /-- `WithDims(ds)` with an index list : `x[:, ds]` -/
  | withDims (ds : List Nat)
  /-- `WithDims(mask)` with a Boolean mask (`np.array([True, True, False])`): the columns where the
  mask is true; numpy refuses a mask whose length is not the dimension -/
  | withMask (bs : List Bool)
  /-- `WithDims(ds)` with integers of either sign (`[-1, 0]`, or a single integer `-1`, which
  `_apply` reshapes to one column): numpy counts a negative index from the end -/
  | withIdx (ds : List Int)
  /-- `WithDims(slice(start, stop, step))`: the columns `range(*slice.indices(n))` -/
  | withSlice (start stop step : Option Int)
deriving DecidableEq, Repr

inductive Cell
  | fam (d : Nat) (t : HT d)
  | chain (members : List Nat)
  | leaf (p : Plain)

abbrev Store := List Cell

inductive Stmt
  /-- `r = a.compose_before(b)` (`dir = before`) / `r = a.compose_after(b)` (`dir = after`) -/
  | compose (dir : Dir) (a b : Nat)
  /-- `a.compose_before_inplace(b)` / `a.compose_after_inplace(b)` -/
  | inplace (dir : Dir) (a b : Nat)
  /-- `a.compose_after_from_vector_inplace(v)` -/
  | fromVector (a : Nat) (v : List Rat)
deriving DecidableEq, Repr

inductive Err
  /-- `ValueError`: the operand is outside `composes_inplace_with` -/
  | rejected
  /-- `AttributeError`: a plain `Transform` has no in-place composition, a chain no vector form -/
  | noMethod
  /-- `ValueError` of `np.dot` / `reshape` / a length test: matrices of different dimension, or a
  parameter vector of the wrong length -/
  | shape
  /-- `NotImplementedError`: 3-D `Similarity`, 2-D `Rotation` have no vector form -/
  | notImplemented
  | badRef
  | fuel
deriving DecidableEq, Repr

/-- `[first, second]` in application order -/
def orderPair (dir : Dir) (a b : Nat) : List Nat :=
  match dir with
  | .before => [a, b]
  | .after => [b, a]

/-- `TransformChain._compose_before_inplace` appends, `_compose_after_inplace` inserts at 0 -/
def chainAdd (dir : Dir) (ms : List Nat) (b : Nat) : List Nat :=
  match dir with
  | .before => ms ++ [b]
  | .after => b :: ms

/-- native composition of two family objects: `np.dot` refuses matrices of different size -/
def nativeCompose (tbl : ClassTable) (dir : Dir) {d d' : Nat} (s : HT d) (t : HT d') :
    Except Err Cell :=
  if h : d' = d then
    match ladder tbl ladderFuel dir s (h ▸ t) with
    | some r => .ok (.fam d r)
    | none => .error .fuel
  else .error .shape

/-- the non-in-place calls `a.compose_before(b)` / `a.compose_after(b)`: the cell of the result -/
def composeCell (tbl : ClassTable) (st : Store) (dir : Dir) (a b : Nat) : Except Err Cell :=
  match st[a]?, st[b]? with
  | some (.fam _ s), some cb =>
    match cb with
    | .fam _ t =>
      if accepts tbl (composesWith tbl s.cls) t.cls then
        -- ComposableTransform.compose_before → Homogeneous._compose_before
        nativeCompose tbl dir s t
      else .ok (.chain (orderPair dir a b))
    -- not an instance of composes_with: Transform.compose_before → TransformChain([self, t])
    | _ => .ok (.chain (orderPair dir a b))
  -- TransformChain composes with every Transform: copy (fresh list) then append / insert;
  -- a chain operand is *not* flattened: it becomes one member
  | some (.chain ms), some _ => .ok (.chain (chainAdd dir ms b))
  -- a plain Transform: TransformChain([self, t]) / TransformChain([t, self])
  | some (.leaf _), some _ => .ok (.chain (orderPair dir a b))
  | _, _ => .error .badRef

/-- the matrix product of an accepted in-place call -/
def nativeInplace (dir : Dir) {d d' : Nat} (s : HT d) (t : HT d') : Except Err Cell :=
  if h : d' = d then .ok (.fam d ⟨s.cls, rawCompose dir s.M (h ▸ t).M⟩) else .error .shape

/-- the in-place calls: the new content of cell `a` -/
def inplaceCell (tbl : ClassTable) (st : Store) (dir : Dir) (a b : Nat) : Except Err Cell :=
  match st[a]?, st[b]? with
  | some (.fam _ s), some cb =>
    match cb with
    | .fam _ t =>
      if accepts tbl (inplaceWith tbl s.cls) t.cls then nativeInplace dir s t
      else .error .rejected
    | _ => .error .rejected
  | some (.chain ms), some _ => .ok (.chain (chainAdd dir ms b))
  | some (.leaf _), some _ => .error .noMethod
  | _, _ => .error .badRef

/-! ### `from_vector` of the family classes (the operand of `compose_after_from_vector_inplace`) -/

/-- the non-alignment class an alignment class is a variant of -/
def baseOf : HCls → HCls
  | .AlignmentAffine => .Affine
  | .AlignmentSimilarity => .Similarity
  | .AlignmentRotation => .Rotation
  | .AlignmentTranslation => .Translation
  | .AlignmentUniformScale => .UniformScale
  | c => c

/-- `h_matrix[:-1, -1] = v` -/
def setTrans (M : Mat (d + 1)) (v : Vec d) : Mat (d + 1) := ⟨fun i j =>
  if hi : i.val < d then (if j.val < d then M i j else v ⟨i.val, hi⟩) else M i j⟩

/-- `np.fill_diagonal(h_matrix, v); h_matrix[-1, -1] = 1` -/
def setDiag (M : Mat (d + 1)) (v : Vec d) : Mat (d + 1) := ⟨fun i j =>
  if i = j then (if hi : i.val < d then v ⟨i.val, hi⟩ else 1) else M i j⟩

/-- `Affine._from_vector_inplace` : `eye + p.reshape((d, d+1), order='F')` on the first `d` rows -/
def affineOfParams (d : Nat) (v : List Rat) : Mat (d + 1) :=
  let a := v.toArray
  ⟨fun i j => (if i = j then 1 else 0) + (if i.val < d then a.getD (j.val * d + i.val) 0 else 0)⟩

/-- the rotation matrix `Rotation._from_vector_inplace` builds from a quaternion `(w, x, y, z)` of
squared norm `n ≠ 0`: `p ← p·√(2/n)`, then products of two entries of `p` only — every entry is
rational in the parameters -/
def quatRot (w x y z : Rat) : Mat 3 :=
  let n := w * w + x * x + y * y + z * z
  let k := 2 / n
  Mat.ofList 3
    [1 - k * (y * y) - k * (z * z), k * (x * y) - k * (z * w), k * (x * z) + k * (y * w),
     k * (x * y) + k * (z * w), 1 - k * (x * x) - k * (z * z), k * (y * z) - k * (x * w),
     k * (x * z) - k * (y * w), k * (y * z) + k * (x * w), 1 - k * (x * x) - k * (y * y)]

/-- `h_matrix[:-1, :-1] = R` -/
def setLin (M : Mat (d + 1)) (R : Mat d) : Mat (d + 1) := ⟨fun i j =>
  if hi : i.val < d then (if hj : j.val < d then R ⟨i.val, hi⟩ ⟨j.val, hj⟩ else M i j) else M i j⟩

/-- The matrix of `self.from_vector(v)` for a receiver of (base) class `c` holding `M`:
`copy()` followed by the class's `_from_vector_inplace`, for a vector of the documented length.
A vector of another length is refused (`ValueError`) by `Homogeneous` (reshape), `Affine`,
`Similarity`, `Rotation` and `UniformScale`; `Translation` assigns it to a column (numpy broadcasts
a single value, refuses any other length), `NonUniformScale` hands it to `np.fill_diagonal`, which
cycles a short vector, truncates a long one and ignores an empty one. -/
def fromVec (c : HCls) {d : Nat} (M : Mat (d + 1)) (v : List Rat) : Except Err (Mat (d + 1)) :=
  match baseOf c with
  | .Homogeneous => if v.length = (d + 1) * (d + 1) then .ok (Mat.ofList (d + 1) v) else .error .shape
  | .Affine =>
    if (d = 2 ∨ d = 3) ∧ v.length = d * (d + 1) then .ok (affineOfParams d v) else .error .shape
  | .Similarity =>
    if v.length = 4 then
      if d = 2 then
        let a := v.getD 0 0; let b := v.getD 1 0
        .ok (Mat.ofList (d + 1) [1 + a, -b, v.getD 2 0, b, 1 + a, v.getD 3 0, 0, 0, 1])
      else .error .shape
    else if v.length = 7 then .error .notImplemented
    else .error .shape
  | .Rotation =>
    if h : d = 3 then
      if v.length = 4 then
        let w := v.getD 0 0; let x := v.getD 1 0; let y := v.getD 2 0; let z := v.getD 3 0
        -- a (numerically) zero quaternion, `n < 4·eps` = 2⁻⁵⁰: `_from_vector_inplace` returns
        -- early, the copy keeps the matrix
        if w * w + x * x + y * y + z * z < 1 / 1125899906842624 then .ok M
        else .ok (setLin M (h ▸ quatRot w x y z))
      else .error .shape
    else .error .notImplemented
  | .Translation =>
    if v.length = d then .ok (setTrans M (Vec.ofList d v))
    else if v.length = 1 then .ok (setTrans M ⟨fun _ => v.getD 0 0⟩)
    else .error .shape
  | .UniformScale =>
    if v.length = 1 then .ok (setDiag M ⟨fun _ => v.getD 0 0⟩) else .error .shape
  | .NonUniformScale =>
    if v.length = 0 then .ok (setDiag M ⟨fun i => M i.castSucc i.castSucc⟩)
    else .ok (setDiag M ⟨fun i => v.getD (i.val % v.length) 0⟩)
  | _ => .error .badRef

/-- `a.compose_after_from_vector_inplace(v)` = `a.compose_after_inplace(a.from_vector(v))`:
the operand is a fresh object of the receiver's own class, so the gate is asked about that class -/
def fromVectorCell (tbl : ClassTable) (st : Store) (a : Nat) (v : List Rat) : Except Err Cell :=
  match st[a]? with
  | some (.fam d s) =>
    match fromVec s.cls s.M v with
    | .error e => .error e
    | .ok Mv =>
      if accepts tbl (inplaceWith tbl s.cls) s.cls then
        .ok (.fam d ⟨s.cls, rawCompose .after s.M Mv⟩)
      else .error .rejected
  | some _ => .error .noMethod
  | none => .error .badRef

/-- one statement: the new store and the reference of the result (non-in-place calls) -/
def step (tbl : ClassTable) (st : Store) : Stmt → Except Err (Store × Option Nat)
  | .compose dir a b => (composeCell tbl st dir a b).map fun c => (st ++ [c], some st.length)
  | .inplace dir a b => (inplaceCell tbl st dir a b).map fun c => (st.set a c, none)
  | .fromVector a v => (fromVectorCell tbl st a v).map fun c => (st.set a c, none)

/-- a rejected / impossible statement raises and leaves the store as it was -/
def stepKeep (tbl : ClassTable) (st : Store) (s : Stmt) : Store :=
  match step tbl st s with
  | .ok (st', _) => st'
  | .error _ => st

def runStmts (tbl : ClassTable) (st : Store) (ss : List Stmt) : Store :=
  ss.foldl (stepKeep tbl) st

/-! ### what an object denotes -/

inductive Leaf
  | fam (d : Nat) (t : HT d)
  | plain (p : Plain)

/-- concatenate the leaves of the members, in order (`none` if one of them has none) -/
def flatMembers (g : Nat → Option (List Leaf)) : List Nat → Option (List Leaf)
  | [] => some []
  | m :: ms =>
    match g m, flatMembers g ms with
    | some l, some ls => some (l ++ ls)
    | _, _ => none

/-- `TransformChain._apply` is `reduce` over the members: the leaves in application order.
Fuel bounds the nesting depth (`none`: deeper than the fuel — in particular a chain that contains
itself, on which Python recurses until `RecursionError` — or a dangling reference). -/
def flat (st : Store) : Nat → Nat → Option (List Leaf)
  | 0, _ => none
  | fuel + 1, r =>
    match st[r]? with
    | none => none
    | some (.fam d t) => some [.fam d t]
    | some (.leaf p) => some [.plain p]
    | some (.chain ms) => flatMembers (flat st fuel) ms

/-- a point of any dimension: its coordinates -/
abbrev Pt := List Rat

/-- `x[:, ds]` for one point (`none`: an index is out of range, numpy raises `IndexError`) -/
def pick : List Nat → Pt → Option Pt
  | [], _ => some []
  | i :: is, x =>
    match x[i]?, pick is x with
    | some v, some vs => some (v :: vs)
    | _, _ => none

/-- the non-negative positions of an index list with negative entries on `n` axes
(`none`: an index is out of range, numpy raises `IndexError`) -/
def normAll (n : Nat) : List Int → Option (List Nat)
  | [] => some []
  | i :: is =>
    match PyData.normIndex n i, normAll n is with
    | some j, some js => some (j :: js)
    | _, _ => none

/-- `x[:, mask]` for one point and a mask of the right length -/
def maskPick : List Bool → Pt → Pt
  | b :: bs, v :: vs => if b then v :: maskPick bs vs else maskPick bs vs
  | _, _ => []

/-- a family object applied to a point: `np.dot` raises unless the point has the object's dimension -/
def applyFam (tbl : ClassTable) {d : Nat} (t : HT d) (x : Pt) : Option Pt :=
  if x.length = d then (applyHT tbl t (Vec.ofList d x)).map Vec.toList else none

def applyLeaf (tbl : ClassTable) (env : Nat → Pt → Option Pt) : Leaf → Pt → Option Pt
  | .fam _ t, x => applyFam tbl t x
  | .plain (.opq k), x => env k x
  | .plain (.withDims ds), x => pick ds x
  | .plain (.withMask bs), x => if bs.length = x.length then some (maskPick bs x) else none
  | .plain (.withIdx ds), x => (normAll x.length ds).bind fun is => pick is x
  -- a slice never raises `IndexError` (out-of-range bounds are clipped); step 0 is a `ValueError`
  | .plain (.withSlice a b c), x => (PyData.sliceIndices a b c x.length).bind fun is => pick is x

/-- apply the leaves one after the other -/
def applyLeaves (tbl : ClassTable) (env : Nat → Pt → Option Pt) : List Leaf → Pt → Option Pt
  | [], x => some x
  | l :: ls, x => (applyLeaf tbl env l x).bind (applyLeaves tbl env ls)

/-- `reduce(lambda x_i, tr: tr._apply(x_i), members, x)` with `g m` the `_apply` of member `m` -/
def applyMembers (g : Nat → Pt → Option Pt) : List Nat → Pt → Option Pt
  | [], x => some x
  | m :: ms, x => (g m x).bind (applyMembers g ms)

/-- `obj._apply(x)` *as coded*: a family object and a plain transform apply themselves,
`TransformChain._apply` reduces over its members, each of which may be a chain again (the recursion
is on fuel: `none` also when the nesting is deeper than the fuel, in particular for a chain that
contains itself).  Theorem `applyRef_eq_flat`: this is the application of the flattened leaves. -/
def applyRef (tbl : ClassTable) (env : Nat → Pt → Option Pt) (st : Store) : Nat → Nat → Pt → Option Pt
  | 0, _, _ => none
  | fuel + 1, r, x =>
    match st[r]? with
    | none => none
    | some (.fam _ t) => applyFam tbl t x
    | some (.leaf p) => applyLeaf tbl env (.plain p) x
    | some (.chain ms) => applyMembers (applyRef tbl env st fuel) ms x

/-! ### dimension typing: every object is a partial function on dimensions -/

/-- dimension of the output of a leaf on an `n`-dimensional point (`none`: the application raises);
`envDim k` is the declared typing of the opaque transform `k` -/
def leafDim (envDim : Nat → Nat → Option Nat) : Leaf → Nat → Option Nat
  | .fam d _, n => if n = d then some d else none
  | .plain (.opq k), n => envDim k n
  | .plain (.withDims ds), n => if ds.all (· < n) then some ds.length else none
  | .plain (.withMask bs), n => if bs.length = n then some (bs.count true) else none
  | .plain (.withIdx ds), n => (normAll n ds).map List.length
  | .plain (.withSlice a b c), n => (PyData.sliceIndices a b c n).map List.length

def leavesDim (envDim : Nat → Nat → Option Nat) : List Leaf → Nat → Option Nat
  | [], n => some n
  | l :: ls, n => (leafDim envDim l n).bind (leavesDim envDim ls)

/-- does flattening `r` (within the fuel) visit cell `a`? -/
def reaches (st : Store) : Nat → Nat → Nat → Bool
  | 0, _, _ => false
  | fuel + 1, r, a =>
    r == a ||
    match st[r]? with
    | some (.chain ms) => ms.any (fun m => reaches st fuel m a)
    | _ => false

/-! ### `Affine.decompose` -/

/-- `s[0]` -/
def Vec.head (s : Vec d) : Rat := if h : 0 < d then s ⟨0, h⟩ else 0

/-- the `Scale` factory: `UniformScale(s[0], n)` when `np.allclose(s, s[0])` (the Boolean), a
`NonUniformScale(s)` otherwise -/
def scaleFactory (s : Vec d) (uniform : Bool) : HT d :=
  if uniform then ⟨.UniformScale, mkAffine (scalarMat d s.head) (zeroVec d)⟩
  else ⟨.NonUniformScale, mkAffine (diagMat s) (zeroVec d)⟩

/-- `Affine.decompose()` given the factors numpy's SVD returned (`L = U · diag s · V`):
`[Rotation(V), Scale(s), Rotation(U), Translation(t)]`. -/
def decomposeLeaves (U V : Mat d) (s : Vec d) (uniform : Bool) (t : Vec d) : List Leaf :=
  [.fam d ⟨.Rotation, mkAffine V (zeroVec d)⟩,
   .fam d (scaleFactory s uniform),
   .fam d ⟨.Rotation, mkAffine U (zeroVec d)⟩,
   .fam d ⟨.Translation, mkAffine (Mat.one d) t⟩]

/-- `DiscreteAffine.decompose()` : `[self.copy()]` -/
def decomposeDiscrete (t : HT d) : List Leaf := [.fam d t]

/-! ### method resolution (regenerated from the live classes, `Generated/C03Classes.lean`) -/

/-- the classes composition is exercised on -/
inductive Kls
  | fam (c : HCls) | TransformChain | WithDims | ThinPlateSplines | PiecewiseAffine
deriving DecidableEq, Repr

/-- classes that define (supply) one of the methods below somewhere in an MRO -/
inductive Sup
  | Copyable | Vectorizable | Transform | ComposableTransform | VComposable | Alignment
  | HomogFamilyAlignment | DiscreteAffine
  | Homogeneous | Affine | Similarity | Rotation | Translation | UniformScale | NonUniformScale
  | AlignmentAffine | AlignmentSimilarity | AlignmentRotation | AlignmentTranslation
  | AlignmentUniformScale
  | TransformChain | WithDims | ThinPlateSplines | AbstractPWA | CachedPWA | PythonPWA
  /-- supplies `n_dims` of the alignment classes (`self.target.n_dims`); used by `Core/C03Src.lean` only -/
  | Targetable
deriving DecidableEq, Repr

/-- the methods of the composition machinery, in the column order of the method table -/
inductive Meth
  | compose_before | compose_after | compose_before_inplace | compose_after_inplace
  | _compose_before | _compose_after | _compose_before_inplace | _compose_after_inplace
  | compose_after_from_vector_inplace | from_vector | _from_vector_inplace
  | _apply | copy | decompose | as_non_alignment | _set_h_matrix
deriving DecidableEq, Repr

def Meth.all : List Meth :=
  [.compose_before, .compose_after, .compose_before_inplace, .compose_after_inplace,
   ._compose_before, ._compose_after, ._compose_before_inplace, ._compose_after_inplace,
   .compose_after_from_vector_inplace, .from_vector, ._from_vector_inplace,
   ._apply, .copy, .decompose, .as_non_alignment, ._set_h_matrix]

/-- per class: for each method of `Meth.all`, the class whose `__dict__` supplies it (`none`: no
class of the MRO defines it, the attribute lookup raises `AttributeError`) -/
abbrev MethodTable := List (Kls × List (Option Sup))

def supplier (mt : MethodTable) (k : Kls) (m : Meth) : Option Sup :=
  match mt.find? (fun r => r.1 == k) with
  | some r => (r.2.getD (Meth.all.idxOf m) none)
  | none => none

/-- row of a family class: the eight compose entry points and `compose_after_from_vector_inplace`,
`from_vector` are inherited unchanged by all twelve classes (`ComposableTransform` supplies the
public calls, `Homogeneous` the ladder, the matrix products and the vector entry point) -/
def famRow (fromVecInplace apply copy decompose asNonAlignment setH : Option Sup) : List (Option Sup) :=
  [some .ComposableTransform, some .ComposableTransform, some .ComposableTransform,
   some .ComposableTransform, some .Homogeneous, some .Homogeneous, some .Homogeneous,
   some .Homogeneous, some .Homogeneous, some .Homogeneous,
   fromVecInplace, apply, copy, decompose, asNonAlignment, setH]

/-- a plain `Transform`: only the chain-building `compose_before/after` of `Transform` -/
def plainRow (apply : Sup) : List (Option Sup) :=
  [some .Transform, some .Transform, none, none, none, none, none, none, none, none, none,
   some apply, some .Copyable, none, none, none]

open Sup in
/-- The method resolution the model is a transcription of (obligation `methodTable_ok`):
which function body runs for each entry point on each class. -/
def expectedMethodTable : MethodTable := [
  (.fam .Homogeneous, famRow (some Homogeneous) (some Homogeneous) (some Copyable) none none (some Homogeneous)),
  (.fam .Affine, famRow (some Affine) (some Affine) (some Copyable) (some Affine) none (some Affine)),
  (.fam .Similarity, famRow (some Similarity) (some Affine) (some Copyable) (some Affine) none (some Affine)),
  (.fam .Rotation, famRow (some Rotation) (some Affine) (some Copyable) (some DiscreteAffine) none (some Affine)),
  (.fam .Translation, famRow (some Translation) (some Affine) (some Copyable) (some DiscreteAffine) none (some Affine)),
  (.fam .UniformScale, famRow (some UniformScale) (some Affine) (some Copyable) (some DiscreteAffine) none (some Affine)),
  (.fam .NonUniformScale, famRow (some NonUniformScale) (some Affine) (some Copyable) (some DiscreteAffine) none (some Affine)),
  (.fam .AlignmentAffine, famRow (some Affine) (some Affine) (some HomogFamilyAlignment) (some Affine)
    (some AlignmentAffine) (some AlignmentAffine)),
  (.fam .AlignmentSimilarity, famRow (some AlignmentSimilarity) (some Affine) (some HomogFamilyAlignment)
    (some Affine) (some AlignmentSimilarity) (some Affine)),
  (.fam .AlignmentRotation, famRow (some Rotation) (some Affine) (some HomogFamilyAlignment)
    (some DiscreteAffine) (some AlignmentRotation) (some Affine)),
  (.fam .AlignmentTranslation, famRow (some AlignmentTranslation) (some Affine) (some HomogFamilyAlignment)
    (some DiscreteAffine) (some AlignmentTranslation) (some Affine)),
  (.fam .AlignmentUniformScale, famRow (some AlignmentUniformScale) (some Affine) (some HomogFamilyAlignment)
    (some DiscreteAffine) (some AlignmentUniformScale) (some Affine)),
  (.TransformChain, [some ComposableTransform, some ComposableTransform, some ComposableTransform,
    some ComposableTransform, some ComposableTransform, some ComposableTransform, some TransformChain,
    some TransformChain, none, none, none, some TransformChain, some Copyable, none, none, none]),
  (.WithDims, plainRow WithDims),
  (.ThinPlateSplines, plainRow ThinPlateSplines),
  (.PiecewiseAffine, plainRow AbstractPWA)]

end MenpoModel.C03
