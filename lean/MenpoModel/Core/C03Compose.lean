/-
C03 — executable model of menpo's composition machinery (core Lean only).

Transcribed branch for branch from
  menpo/transform/base/__init__.py        Transform.compose_before/after          (chain fallback)
  menpo/transform/base/composable.py      ComposableTransform.compose_* , TransformChain
  menpo/transform/homogeneous/base.py     Homogeneous._compose_before/_after (isinstance ladder,
                                          mutual recursion, alignment stripping), _compose_*_inplace
  menpo/transform/homogeneous/*.py        as_non_alignment of the five alignment classes

Everything that is *class structure* (family MRO, alignment flag, `composes_inplace_with`,
`composes_with`, the class `as_non_alignment()` returns) is read from a `ClassTable`; the table
extracted from the live classes is `Generated.C03.classTable`, the table the theorems are about
is `expectedClassTable`, and `GenProps/C03.lean` obliges the two to be equal.

Python objects are cells of a store (`List Cell`, the index is the reference): a family object
holds its class and matrix, a `TransformChain` holds *references* to its members (so that later
in-place edits of a member are seen through the chain, exactly as in Python), anything else
(thin-plate spline, piecewise affine, `WithDims`) is an opaque leaf.
-/
import MenpoModel.Core.C03Mat

namespace MenpoModel.C03

/-- the twelve classes of the homogeneous family (`menpo.transform` exports exactly these) -/
inductive HCls
  | Homogeneous | Affine | Similarity | Rotation | Translation | UniformScale | NonUniformScale
  | AlignmentAffine | AlignmentSimilarity | AlignmentRotation | AlignmentTranslation
  | AlignmentUniformScale
deriving DecidableEq, Repr, Inhabited

def HCls.all : List HCls :=
  [.Homogeneous, .Affine, .Similarity, .Rotation, .Translation, .UniformScale, .NonUniformScale,
   .AlignmentAffine, .AlignmentSimilarity, .AlignmentRotation, .AlignmentTranslation,
   .AlignmentUniformScale]

def HCls.name : HCls → String
  | .Homogeneous => "Homogeneous" | .Affine => "Affine" | .Similarity => "Similarity"
  | .Rotation => "Rotation" | .Translation => "Translation" | .UniformScale => "UniformScale"
  | .NonUniformScale => "NonUniformScale" | .AlignmentAffine => "AlignmentAffine"
  | .AlignmentSimilarity => "AlignmentSimilarity" | .AlignmentRotation => "AlignmentRotation"
  | .AlignmentTranslation => "AlignmentTranslation"
  | .AlignmentUniformScale => "AlignmentUniformScale"

def HCls.ofName (s : String) : Option HCls := HCls.all.find? (fun c => c.name == s)

/-- one row of the class table, as `harness/extract_c03.py` reads it from the live classes -/
structure ClsRow where
  cls : HCls
  /-- `cls.__mro__` restricted to the family, in MRO order, `cls` first -/
  ancestors : List HCls
  /-- `issubclass(cls, HomogFamilyAlignment)` -/
  isAlignment : Bool
  /-- `instance.composes_inplace_with` (tuple flattened), restricted to the family -/
  inplaceWith : List HCls
  /-- `instance.composes_with`, restricted to the family -/
  composesWith : List HCls
  /-- class of `instance.as_non_alignment()` for alignment classes, of `instance.copy()` otherwise -/
  strip : HCls
deriving DecidableEq, Repr

abbrev ClassTable := List ClsRow

open HCls in
/-- The class structure the theorems are about: the live hierarchy with the in-place gate of
`Similarity` and `Translation` closed under composition (notes/fixes/C03-inplace-compose-closed.diff). -/
def expectedClassTable : ClassTable := [
  ⟨Homogeneous, [Homogeneous], false, [Homogeneous], [Homogeneous], Homogeneous⟩,
  ⟨Affine, [Affine, Homogeneous], false, [Affine], [Homogeneous], Affine⟩,
  ⟨Similarity, [Similarity, Affine, Homogeneous], false, [Similarity], [Homogeneous], Similarity⟩,
  ⟨Rotation, [Rotation, Similarity, Affine, Homogeneous], false, [Rotation], [Homogeneous], Rotation⟩,
  ⟨Translation, [Translation, Similarity, Affine, Homogeneous], false, [Translation], [Homogeneous],
    Translation⟩,
  ⟨UniformScale, [UniformScale, Similarity, Affine, Homogeneous], false, [UniformScale], [Homogeneous],
    UniformScale⟩,
  ⟨NonUniformScale, [NonUniformScale, Affine, Homogeneous], false, [NonUniformScale, UniformScale],
    [Homogeneous], NonUniformScale⟩,
  ⟨AlignmentAffine, [AlignmentAffine, Affine, Homogeneous], true, [Affine], [Homogeneous], Affine⟩,
  ⟨AlignmentSimilarity, [AlignmentSimilarity, Similarity, Affine, Homogeneous], true, [Similarity],
    [Homogeneous], Similarity⟩,
  ⟨AlignmentRotation, [AlignmentRotation, Rotation, Similarity, Affine, Homogeneous], true, [Rotation],
    [Homogeneous], Rotation⟩,
  ⟨AlignmentTranslation, [AlignmentTranslation, Translation, Similarity, Affine, Homogeneous], true,
    [Translation], [Homogeneous], Translation⟩,
  ⟨AlignmentUniformScale, [AlignmentUniformScale, UniformScale, Similarity, Affine, Homogeneous], true,
    [UniformScale], [Homogeneous], UniformScale⟩]

open HCls in
/-- The class structure of the tree as it was when this model was written: `Similarity` and
`Translation` (and their alignment variants) inherit `composes_inplace_with = Affine`.
Kept for the refutation-by-witness theorems in `Props/C03.lean`. -/
def codedClassTable : ClassTable := [
  ⟨Homogeneous, [Homogeneous], false, [Homogeneous], [Homogeneous], Homogeneous⟩,
  ⟨Affine, [Affine, Homogeneous], false, [Affine], [Homogeneous], Affine⟩,
  ⟨Similarity, [Similarity, Affine, Homogeneous], false, [Affine], [Homogeneous], Similarity⟩,
  ⟨Rotation, [Rotation, Similarity, Affine, Homogeneous], false, [Rotation], [Homogeneous], Rotation⟩,
  ⟨Translation, [Translation, Similarity, Affine, Homogeneous], false, [Affine], [Homogeneous],
    Translation⟩,
  ⟨UniformScale, [UniformScale, Similarity, Affine, Homogeneous], false, [UniformScale], [Homogeneous],
    UniformScale⟩,
  ⟨NonUniformScale, [NonUniformScale, Affine, Homogeneous], false, [NonUniformScale, UniformScale],
    [Homogeneous], NonUniformScale⟩,
  ⟨AlignmentAffine, [AlignmentAffine, Affine, Homogeneous], true, [Affine], [Homogeneous], Affine⟩,
  ⟨AlignmentSimilarity, [AlignmentSimilarity, Similarity, Affine, Homogeneous], true, [Affine],
    [Homogeneous], Similarity⟩,
  ⟨AlignmentRotation, [AlignmentRotation, Rotation, Similarity, Affine, Homogeneous], true, [Rotation],
    [Homogeneous], Rotation⟩,
  ⟨AlignmentTranslation, [AlignmentTranslation, Translation, Similarity, Affine, Homogeneous], true,
    [Affine], [Homogeneous], Translation⟩,
  ⟨AlignmentUniformScale, [AlignmentUniformScale, UniformScale, Similarity, Affine, Homogeneous], true,
    [UniformScale], [Homogeneous], UniformScale⟩]

def rowOf (tbl : ClassTable) (c : HCls) : Option ClsRow := tbl.find? (fun r => r.cls == c)

/-- `isinstance(obj_of_class a, b)` -/
def isSub (tbl : ClassTable) (a b : HCls) : Bool :=
  match rowOf tbl a with
  | some r => r.ancestors.contains b
  | none => false

/-- `isinstance(obj_of_class c, tuple(ws))` -/
def accepts (tbl : ClassTable) (ws : List HCls) (c : HCls) : Bool := ws.any (fun w => isSub tbl c w)

def isAlign (tbl : ClassTable) (c : HCls) : Bool :=
  match rowOf tbl c with
  | some r => r.isAlignment
  | none => false

def stripCls (tbl : ClassTable) (c : HCls) : HCls :=
  match rowOf tbl c with
  | some r => r.strip
  | none => c

def inplaceWith (tbl : ClassTable) (c : HCls) : List HCls :=
  match rowOf tbl c with
  | some r => r.inplaceWith
  | none => []

def composesWith (tbl : ClassTable) (c : HCls) : List HCls :=
  match rowOf tbl c with
  | some r => r.composesWith
  | none => []

/-- a family object: its class and its `h_matrix` -/
structure HT (d : Nat) where
  cls : HCls
  M : Mat (d + 1)

variable {d : Nat}

/-- `_apply` by method resolution: `Affine._apply` for every subclass of `Affine`,
`Homogeneous._apply` otherwise -/
def applyHT (tbl : ClassTable) (t : HT d) (x : Vec d) : Option (Vec d) :=
  if isSub tbl t.cls .Affine then some (affApply t.M x) else projApply t.M x

/-- the matrix the object returned by `as_non_alignment()` holds:
`Affine(self.h_matrix)`, `Similarity(self.h_matrix)`, `Rotation(self.rotation_matrix)`,
`Translation(self.translation_component)`, `UniformScale(self.scale, self.n_dims)`;
`copy()` for the other classes -/
def nonAlignmentMatrix (c : HCls) (M : Mat (d + 1)) : Mat (d + 1) :=
  match c with
  | .AlignmentRotation => mkAffine (lin M) (zeroVec d)
  | .AlignmentTranslation => mkAffine (Mat.one d) (trans M)
  | .AlignmentUniformScale => mkAffine (scalarMat d (M 0 0)) (zeroVec d)
  | _ => M

inductive Dir | before | after
deriving DecidableEq, Repr

def Dir.flip : Dir → Dir
  | .before => .after
  | .after => .before

/-- `Homogeneous._compose_before_inplace` : `dot(t.h, self.h)`;
    `Homogeneous._compose_after_inplace` : `dot(self.h, t.h)` -/
def rawCompose (dir : Dir) (selfM tM : Mat (d + 1)) : Mat (d + 1) :=
  match dir with
  | .before => Mat.mul tM selfM
  | .after => Mat.mul selfM tM

/-- `Homogeneous._compose_before(self, t)` / `_compose_after(self, t)`, the isinstance ladder.
The Python methods call each other (`t._compose_after(self)`); the recursion is on fuel,
`none` = fuel exhausted (theorem `ladder_total`: 2 always suffices). -/
def ladder (tbl : ClassTable) : Nat → Dir → HT d → HT d → Option (HT d)
  | 0, _, _, _ => none
  | fuel + 1, dir, s, t =>
    if isSub tbl t.cls s.cls then
      -- "He is a subclass of me - I can swallow him" (alignment nature stripped first)
      let new : HT d :=
        if isAlign tbl s.cls then ⟨stripCls tbl s.cls, nonAlignmentMatrix s.cls s.M⟩ else s
      some ⟨new.cls, rawCompose dir new.M t.M⟩
    else if isSub tbl s.cls t.cls then
      -- "I am a subclass of him - he can swallow me"
      ladder tbl fuel dir.flip t s
    else if isSub tbl s.cls .Similarity && isSub tbl t.cls .Similarity then
      some ⟨.Similarity, rawCompose dir s.M t.M⟩
    else if isSub tbl s.cls .Affine && isSub tbl t.cls .Affine then
      some ⟨.Affine, rawCompose dir s.M t.M⟩
    else
      some ⟨.Homogeneous, rawCompose dir s.M t.M⟩

def ladderFuel : Nat := 2

/-! ### the store -/

inductive Cell (d : Nat)
  | fam (t : HT d)
  | chain (members : List Nat)
  | leaf (k : Nat)

abbrev Store (d : Nat) := List (Cell d)

inductive Stmt
  /-- `r = a.compose_before(b)` (`dir = before`) / `r = a.compose_after(b)` (`dir = after`) -/
  | compose (dir : Dir) (a b : Nat)
  /-- `a.compose_before_inplace(b)` / `a.compose_after_inplace(b)` -/
  | inplace (dir : Dir) (a b : Nat)
deriving DecidableEq, Repr

inductive Err
  /-- `ValueError`: the operand is outside `composes_inplace_with` -/
  | rejected
  /-- `AttributeError`: a plain `Transform` has no in-place composition -/
  | noMethod
  | badRef
  | fuel
deriving DecidableEq, Repr

/-- `[first, second]` in application order -/
def orderPair (dir : Dir) (a b : Nat) : List Nat :=
  match dir with
  | .before => [a, b]
  | .after => [b, a]

/-- `TransformChain._compose_before_inplace` appends, `_compose_after_inplace` inserts at 0 -/
def chainAdd (dir : Dir) (ms : List Nat) (b : Nat) : List Nat :=
  match dir with
  | .before => ms ++ [b]
  | .after => b :: ms

/-- the non-in-place calls `a.compose_before(b)` / `a.compose_after(b)`: the cell of the result -/
def composeCell (tbl : ClassTable) (st : Store d) (dir : Dir) (a b : Nat) : Except Err (Cell d) :=
  match st[a]?, st[b]? with
  | some (.fam s), some cb =>
    match cb with
    | .fam t =>
      if accepts tbl (composesWith tbl s.cls) t.cls then
        -- ComposableTransform.compose_before → Homogeneous._compose_before
        match ladder tbl ladderFuel dir s t with
        | some r => .ok (.fam r)
        | none => .error .fuel
      else .ok (.chain (orderPair dir a b))
    -- not an instance of composes_with: Transform.compose_before → TransformChain([self, t])
    | _ => .ok (.chain (orderPair dir a b))
  -- TransformChain composes with every Transform: copy (fresh list) then append / insert
  | some (.chain ms), some _ => .ok (.chain (chainAdd dir ms b))
  -- a plain Transform: TransformChain([self, t]) / TransformChain([t, self])
  | some (.leaf _), some _ => .ok (.chain (orderPair dir a b))
  | _, _ => .error .badRef

/-- the in-place calls: the new content of cell `a` -/
def inplaceCell (tbl : ClassTable) (st : Store d) (dir : Dir) (a b : Nat) : Except Err (Cell d) :=
  match st[a]?, st[b]? with
  | some (.fam s), some cb =>
    match cb with
    | .fam t =>
      if accepts tbl (inplaceWith tbl s.cls) t.cls then
        .ok (.fam ⟨s.cls, rawCompose dir s.M t.M⟩)
      else .error .rejected
    | _ => .error .rejected
  | some (.chain ms), some _ => .ok (.chain (chainAdd dir ms b))
  | some (.leaf _), some _ => .error .noMethod
  | _, _ => .error .badRef

/-- one statement: the new store and the reference of the result (non-in-place calls) -/
def step (tbl : ClassTable) (st : Store d) : Stmt → Except Err (Store d × Option Nat)
  | .compose dir a b => (composeCell tbl st dir a b).map fun c => (st ++ [c], some st.length)
  | .inplace dir a b => (inplaceCell tbl st dir a b).map fun c => (st.set a c, none)

/-- a rejected / impossible statement raises and leaves the store as it was -/
def stepKeep (tbl : ClassTable) (st : Store d) (s : Stmt) : Store d :=
  match step tbl st s with
  | .ok (st', _) => st'
  | .error _ => st

def runStmts (tbl : ClassTable) (st : Store d) (ss : List Stmt) : Store d :=
  ss.foldl (stepKeep tbl) st

/-! ### what an object denotes -/

inductive Leaf (d : Nat)
  | fam (t : HT d)
  | opq (k : Nat)

/-- concatenate the leaves of the members, in order (`none` if one of them has none) -/
def flatMembers (g : Nat → Option (List (Leaf d))) : List Nat → Option (List (Leaf d))
  | [] => some []
  | m :: ms =>
    match g m, flatMembers g ms with
    | some l, some ls => some (l ++ ls)
    | _, _ => none

/-- `TransformChain._apply` is `reduce` over the members: the leaves in application order.
Fuel bounds the nesting depth (`none`: deeper than the fuel, or a dangling reference). -/
def flat (st : Store d) : Nat → Nat → Option (List (Leaf d))
  | 0, _ => none
  | fuel + 1, r =>
    match st[r]? with
    | none => none
    | some (.fam t) => some [.fam t]
    | some (.leaf k) => some [.opq k]
    | some (.chain ms) => flatMembers (flat st fuel) ms

def applyLeaf (tbl : ClassTable) (env : Nat → Vec d → Option (Vec d)) : Leaf d → Vec d → Option (Vec d)
  | .fam t, x => applyHT tbl t x
  | .opq k, x => env k x

/-- apply the leaves one after the other -/
def applyLeaves (tbl : ClassTable) (env : Nat → Vec d → Option (Vec d)) :
    List (Leaf d) → Vec d → Option (Vec d)
  | [], x => some x
  | l :: ls, x => (applyLeaf tbl env l x).bind (applyLeaves tbl env ls)

/-- does flattening `r` (within the fuel) visit cell `a`? -/
def reaches (st : Store d) : Nat → Nat → Nat → Bool
  | 0, _, _ => false
  | fuel + 1, r, a =>
    r == a ||
    match st[r]? with
    | some (.chain ms) => ms.any (fun m => reaches st fuel m a)
    | _ => false

/-- `Affine.decompose()` given the factors numpy's SVD returned (`L = U · diag s · V`):
`[Rotation(V), Scale(s), Rotation(U), Translation(t)]`.  `Scale` builds a `UniformScale` from
`s[0]` when all factors are (numerically) equal and a `NonUniformScale` otherwise. -/
def decomposeLeaves (U V : Mat d) (s : Vec d) (uniform : Bool) (t : Vec d) : List (Leaf d) :=
  [.fam ⟨.Rotation, mkAffine V (zeroVec d)⟩,
   .fam ⟨if uniform then .UniformScale else .NonUniformScale, mkAffine (diagMat s) (zeroVec d)⟩,
   .fam ⟨.Rotation, mkAffine U (zeroVec d)⟩,
   .fam ⟨.Translation, mkAffine (Mat.one d) t⟩]

end MenpoModel.C03
