/-
C15 — the public entry points around the labelling methods.  Core Lean only.

Transcribed from menpo/landmark/labels/base.py (`labeller_func` — its `wrapper(x, return_mapping=False)` —, and
`labeller(landmarkable, group, label_func)`) and menpo/landmark/base.py (`LandmarkManager.__getitem__`,
`__setitem__`, `n_dims`).

`wrapper`:   if isinstance(x, np.ndarray): x = PointCloud(x, copy=False)
             new_pcloud, mapping = labelling_method(x)          # validate_input(x, n) ; index x.points
             return (new_pcloud, mapping) if return_mapping else new_pcloud
`labeller`:  new_group = label_func(landmarkable.landmarks[group])
             landmarkable.landmarks[label_func.group_label] = new_group
-/
import MenpoModel.Core.C15

namespace MenpoModel.C15

/-- what a labeller is handed: an array, a point cloud, a labelled graph, or a group of a `LandmarkManager`
(through `labeller()`) -/
inductive InKind | ndarray | pointcloud | lgraph | group
  deriving DecidableEq, Repr

/-- class of the object a labelling method builds -/
inductive OutCls | lgraph | trimesh | pugraph | pointcloud | other
  deriving DecidableEq, Repr

/-- the argument `x` as far as `wrapper` and the labelling methods look at it: an ndarray is wrapped into a
`PointCloud` over the same buffer; of a `PointCloud` (any subclass) only `.points` and `.n_points` are read — the
connectivity and the labels a labelled-graph input carries are never consulted -/
structure LabIn (α : Type) where
  kind : InKind
  pts : List α
  edges : List (Nat × Nat) := []
  labels : List (String × List Bool) := []

/-- a labelling function exported by `menpo.landmark`: the name it is exported under, the `group_label`
`labeller_func` duck-types onto it, the class of the object it builds and its index table -/
structure LabFunc where
  name : String
  groupLabel : String
  cls : OutCls
  table : Labeller
  deriving DecidableEq, Repr

/-- what `wrapper` returns: the labelled object and, with `return_mapping=True`, the mapping label → indices into
the output points -/
structure LabOut (α : Type) where
  cls : OutCls
  g : LGraph α
  mapping : Option (List (String × List Nat))
  deriving DecidableEq, Repr

/-- `wrapper(x, return_mapping)` -/
def LabFunc.call {α} (f : LabFunc) (x : LabIn α) (returnMapping : Bool) : Except Err (LabOut α) :=
  -- the `isinstance(x, np.ndarray)` branch only re-wraps the same points
  let pts := match x.kind with
    | .ndarray => x.pts
    | _ => x.pts
  match f.table.apply pts with
  | .error e => .error e
  | .ok g => .ok { cls := f.cls, g := g, mapping := if returnMapping then some f.table.labels else none }

/-! ### the landmark manager as `labeller()` uses it -/

/-- a landmark group as the manager sees it: its dimensionality, its class, its data (labels = [] for classes
that carry none) -/
structure Shape (α : Type) where
  dim : Nat
  cls : OutCls
  g : LGraph α
  deriving DecidableEq, Repr

/-- `LandmarkManager._landmark_groups` (an `OrderedDict`) -/
structure Manager (α : Type) where
  groups : List (String × Shape α)
  deriving DecidableEq, Repr

def Manager.keys {α} (m : Manager α) : List String := m.groups.map Prod.fst

def getGroup {α} : List (String × Shape α) → String → Option (Shape α)
  | [], _ => none
  | (k, v) :: rest, l => if k == l then some v else getGroup rest l

def Manager.get {α} (m : Manager α) (k : String) : Option (Shape α) := getGroup m.groups k

/-- `LandmarkManager.n_dims`: the dimensionality of the first group, `None` when there is none -/
def Manager.nDims {α} (m : Manager α) : Option Nat := m.groups.head?.map fun p => p.2.dim

/-- `__getitem__(group)`: `None` stands for the only group of a manager with exactly one (else `ValueError`);
a missing key is a `KeyError` -/
def Manager.getItem {α} (m : Manager α) : Option String → Except Err (Shape α)
  | none => match m.groups with
    | [(_, v)] => .ok v
    | _ => .error .value
  | some k => match m.get k with
    | some v => .ok v
    | none => .error .key

def setGroup {α} : List (String × Shape α) → String → Shape α → List (String × Shape α)
  | [], l, s => [(l, s)]
  | (k, v) :: rest, l, s => if k == l then (k, s) :: rest else (k, v) :: setGroup rest l s

/-- `__setitem__(group, value)`: a dimensionality different from the manager's and a value that is no
`PointCloud` are refused (`ValueError`); the value is stored as a copy: an existing key keeps its place, a new key
is appended.  (`group is None` cannot arise from `labeller()`: `group_label` is a string.) -/
def Manager.setItem {α} (m : Manager α) (k : String) (v : Shape α) : Except Err (Manager α) :=
  match m.nDims with
  | some d => if v.dim != d then .error .value
              else if v.cls == .other then .error .value
              else .ok { groups := setGroup m.groups k v }
  | none => if v.cls == .other then .error .value else .ok { groups := setGroup m.groups k v }

/-- what the manager holds of a labeller's result: a labelled graph keeps its labels, the other classes
(`TriMesh`) have none — the mapping is dropped by `labeller()` -/
def storedGraph {α} (cls : OutCls) (g : LGraph α) : LGraph α :=
  if cls == .lgraph then g else { g with labels := [] }

/-- `labeller(landmarkable, group, label_func)` on the landmarkable's manager -/
def relabel {α} (m : Manager α) (group : Option String) (f : LabFunc) : Except Err (Manager α) :=
  match m.getItem group with
  | .error e => .error e
  | .ok s =>
    match f.call { kind := .group, pts := s.g.pts, edges := s.g.edges, labels := s.g.labels } false with
    | .error e => .error e
    | .ok o => m.setItem f.groupLabel { dim := s.dim, cls := o.cls, g := storedGraph o.cls o.g }

/-- a sequence of `labeller()` calls on the same landmarkable; stops at the first raising one -/
def relabelMany {α} : Manager α → List (Option String × LabFunc) → Except Err (Manager α)
  | m, [] => .ok m
  | m, (grp, f) :: rest => match relabel m grp f with
    | .error e => .error e
    | .ok m' => relabelMany m' rest

/-- keys distinct, one dimensionality, only point-cloud classes -/
structure ManagerWF {α} (m : Manager α) : Prop where
  keys : m.keys.Nodup
  dims : ∀ p ∈ m.groups, ∀ q ∈ m.groups, p.2.dim = q.2.dim
  clss : ∀ p ∈ m.groups, p.2.cls ≠ .other

/-! ### the resolution table: what each labeller does per input kind (regenerated, see Generated/C15Resolution) -/

inductive Outcome | accepted | labelling | otherError
  deriving DecidableEq, Repr

structure ResRow where
  kind : InKind
  /-- what an input of `n - 1` / `n + 1` points of this kind meets -/
  small : Outcome
  large : Outcome
  /-- class of the result with `return_mapping=False`, and of the first component with `return_mapping=True`
  (for the `group` kind: class of the group `labeller()` stores, twice) -/
  cls : OutCls
  clsWithMapping : OutCls
  /-- which of the entry's `mappings` is returned with `return_mapping=True` (`group` kind: the labels of the
  stored group; `none` when the stored class carries no labels) -/
  mapping : Option Nat
  /-- which of the entry's `inds` says where the output points come from -/
  ind : Nat
  /-- which of the entry's `edgeSets` is the connectivity of the result -/
  edges : Nat
  /-- with and without `return_mapping` the same object is returned; the input is bit-identical afterwards -/
  sameResult : Bool
  inputUntouched : Bool
  deriving DecidableEq, Repr

structure ResEntry where
  name : String
  groupLabel : String
  /-- the key `labeller()` wrote -/
  wroteKey : String
  /-- the distinct mappings / index lists / edge sets observed over all input kinds (one each, if the labeller
  treats every kind alike) -/
  mappings : List (List (String × List Nat))
  inds : List (List Nat)
  edgeSets : List (List (Nat × Nat))
  rows : List ResRow
  deriving DecidableEq, Repr

def outcomeOf {β} : Except Err β → Outcome
  | .ok _ => .accepted
  | .error .labelling => .labelling
  | .error _ => .otherError

def allKinds : List InKind := [.ndarray, .pointcloud, .lgraph, .group]

/-- the row the model predicts for one labeller and one input kind, computed by *running* `call` / `relabel` on the
probe inputs the extraction uses (points = their own indices) -/
def expectedRow (f : LabFunc) (k : InKind) : ResRow :=
  let n := f.table.nExpected
  let probe (m : Nat) : LabIn Nat := { kind := k, pts := List.range m, edges := [(0, 1)], labels := [("all", List.replicate m true)] }
  let run (m : Nat) (rm : Bool) : Except Err (LabOut Nat) :=
    match k with
    | .group =>
      match relabel { groups := [("src", { dim := 2, cls := .pointcloud, g := { pts := List.range m, edges := [], labels := [] } })] }
              (some "src") f with
      | .error e => .error e
      | .ok mgr => match mgr.get f.groupLabel with
        | some s => .ok { cls := s.cls, g := s.g, mapping := if s.g.labels.isEmpty then none else some f.table.labels }
        | none => .error .key
    | _ => f.call (probe m) rm
  let plain := run n false
  let withM := run n true
  { kind := k, small := outcomeOf (run (n - 1) false), large := outcomeOf (run (n + 1) false),
    cls := match plain with | .ok o => o.cls | .error _ => .other,
    clsWithMapping := match withM with | .ok o => o.cls | .error _ => .other,
    mapping := match withM with | .ok o => o.mapping.map (fun _ => 0) | .error _ => none,
    ind := 0, edges := 0,
    sameResult := decide ((plain.map fun o => (o.g, o.cls)) = (withM.map fun o => (o.g, o.cls))),
    inputUntouched := true }

def expectedEntry (f : LabFunc) : ResEntry :=
  { name := f.name, groupLabel := f.groupLabel, wroteKey := f.groupLabel,
    mappings := [f.table.labels],
    inds := [match f.table.apply (List.range f.table.nExpected) with | .ok g => g.pts | .error _ => []],
    edgeSets := [f.table.edges],
    rows := allKinds.map (expectedRow f) }

/-! ### regenerated source scans (harness/scan_c15.py, see Generated/C15Scan) -/

/-- one expression of the anchored files that builds a `set`, with the ways its value is used -/
structure SetSite where
  file : String
  fn : String
  expr : String
  uses : List String
  deriving DecidableEq, Repr

/-- uses that cannot observe the iteration order of a set -/
def orderFreeUse (u : String) : Bool :=
  ["len", "sorted", "orderfree-call", "membership", "compare", "truth", "setop", "unused"].contains u

/-- the sites of a scan with a use that may observe the iteration order: (file, function, expression, use) -/
def orderSitesOf (sites : List SetSite) : List (String × String × String × String) :=
  sites.flatMap fun s => (s.uses.filter fun u => !orderFreeUse u).map fun u => (s.file, s.fn, s.expr, u)

/-- the whitelist: the one place where the anchored code iterates over a set — to print the unknown labels in the
message of the `ValueError` it is about to raise; no returned value depends on it -/
def expectedOrderSites : List (String × String × String × String) :=
  [("menpo/shape/labelled.py", "LabelledPointUndirectedGraph._new_group_with_only_labels",
    "set(labels).difference(self.labels)", "iterate-in-raise")]

/-- the guard of the `raise LabellingError` in `validate_input`, with the local names resolved (`$0` = the point
cloud, `$1` = the expected size): the input is refused iff its number of points *differs* from the expected one -/
def expectedValidateGuard : List String := ["($0.n_points) != $1"]

/-- the index-based labelling functions the property quantifies over ("all 33 predefined index-based labellers"), by the
name `menpo.landmark` exports them under: a labeller that disappears from the module (or a new one) breaks
`GenProps.labellers_pinned` instead of silently leaving (entering) the quantifier -/
def expectedLabellerNames : List String :=
  ["car_streetscene_20_to_car_streetscene_view_0_8", "car_streetscene_20_to_car_streetscene_view_1_14",
   "car_streetscene_20_to_car_streetscene_view_2_10", "car_streetscene_20_to_car_streetscene_view_3_14",
   "car_streetscene_20_to_car_streetscene_view_4_14", "car_streetscene_20_to_car_streetscene_view_5_10",
   "car_streetscene_20_to_car_streetscene_view_6_14", "car_streetscene_20_to_car_streetscene_view_7_8",
   "eye_ibug_close_17_to_eye_ibug_close_17", "eye_ibug_close_17_to_eye_ibug_close_17_trimesh",
   "eye_ibug_open_38_to_eye_ibug_open_38", "eye_ibug_open_38_to_eye_ibug_open_38_trimesh",
   "face_bu3dfe_83_to_face_bu3dfe_83", "face_ibug_49_to_face_ibug_49", "face_ibug_68_mirrored_to_face_ibug_68",
   "face_ibug_68_to_face_ibug_49", "face_ibug_68_to_face_ibug_49_trimesh", "face_ibug_68_to_face_ibug_51",
   "face_ibug_68_to_face_ibug_51_trimesh", "face_ibug_68_to_face_ibug_65", "face_ibug_68_to_face_ibug_66",
   "face_ibug_68_to_face_ibug_66_trimesh", "face_ibug_68_to_face_ibug_68",
   "face_ibug_68_to_face_ibug_68_trimesh", "face_imm_58_to_face_imm_58", "face_lfpw_29_to_face_lfpw_29",
   "hand_ibug_39_to_hand_ibug_39", "pose_flic_11_to_pose_flic_11", "pose_human36M_32_to_pose_human36M_17",
   "pose_human36M_32_to_pose_human36M_32", "pose_lsp_14_to_pose_lsp_14", "pose_stickmen_12_to_pose_stickmen_12",
   "tongue_ibug_19_to_tongue_ibug_19"]

/-- what one labelling function (or a helper it delegates to) does with the point cloud it is handed -/
structure LabScan where
  name : String
  file : String
  isLabeller : Bool
  uses : List String
  /-- the sizes `validate_input` is called with, directly or in a function delegated to -/
  sizes : List Nat
  delegates : List String
  deriving DecidableEq, Repr

/-- `validate_input(p, n)`, `p.points[<index not mentioning p>]`, `p.points` handed whole to a constructor,
`p.n_points` / `p.n_dims`, `p` handed to another scanned function: none of these can look at a coordinate -/
def allowedParamUse (u : String) : Bool := ["validate", "index", "whole", "meta", "delegate"].contains u

/-- every scanned function uses its argument in the allowed ways only, delegates only to scanned functions, and
every tabulated labeller was scanned, is decorated with `labeller_func`, and validates exactly the size of its table -/
def labScanOK (scan : List LabScan) (funcs : List LabFunc) : Bool :=
  scan.all (fun s => s.uses.all allowedParamUse && s.delegates.all fun d => scan.any fun s' => s'.name == d)
  && funcs.all fun f => scan.any fun s => s.name == f.name && s.isLabeller && s.sizes == [f.table.nExpected]

end MenpoModel.C15
