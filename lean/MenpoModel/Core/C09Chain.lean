/-
C09 — wrappers around `_apply`: `TransformChain._apply` (a left fold over the members), `WithDims._apply`
(column selection), the generic `Transform._apply_batched` when `_apply` may raise (the first failing batch
ends the loop), and a chain with one piecewise-affine member.  Core Lean only.
Transcribed from menpo/transform/base/composable.py, menpo/transform/__init__.py, menpo/transform/base/__init__.py.
-/
import MenpoModel.Core.C09

namespace MenpoModel.C09

/-- `reduce(lambda x_i, tr: tr._apply(x_i), self.transforms, x)` -/
def chainApply {α} (fs : List (List α → List α)) (x : List α) : List α := fs.foldl (fun xi f => f xi) x

/-- the same fold when a member may raise: the first member that raises ends the reduction -/
def chainApplyE {ε α} (fs : List (List α → Except ε (List α))) (x : List α) : Except ε (List α) :=
  fs.foldl (fun xi f => match xi with | .ok v => f v | .error e => .error e) (.ok x)

/-- a point of any dimension -/
abbrev PtN := List Rat

/-- `WithDims._apply`: `x[:, dims]` for a list of column numbers (a single number gives one column, the
`y[:, None]` branch); a column outside the point reads as 0 (numpy raises; never driven) -/
def withDims (dims : List Nat) (p : PtN) : PtN := dims.map fun j => p.getD j 0

/-- `Affine._apply` for one point of any dimension: `M` is the `d_out × (d_in + 1)` top block of the
homogeneous matrix (`x @ h[:d, :d].T + h[:d, d]`) -/
def affPt (M : List (List Rat)) (p : PtN) : PtN :=
  M.map fun row => ((row.zip (p ++ [1])).map fun rc => rc.1 * rc.2).foldl (· + ·) 0

/-- a member that never raises -/
def liftOk {ε α} (f : List α → List α) : List α → Except ε (List α) := fun x => .ok (f x)

/-- generic `Transform._apply_batched` over a raising `_apply`: batches in order, the first exception propagates
unchanged, otherwise `vstack` -/
def mapBatchesE {ε α β} (f : List α → Except ε (List β)) : List (List α) → Except ε (List β)
  | [] => .ok []
  | c :: cs =>
    match f c with
    | .error e => .error e
    | .ok r => match mapBatchesE f cs with
      | .error e => .error e
      | .ok rs => .ok (r ++ rs)

def applyBatchedE {ε α β} (f : List α → Except ε (List β)) (k : Nat) (xs : List α) : Except ε (List β) :=
  mapBatchesE f (batches k xs)

/-- a piecewise transform seen through point-wise members before (`g`) and after (`h`) it:
`TransformChain([…point-wise…, pwa, …point-wise…])` -/
def Pwa.wrap {α β γ δ} (g : α → β) (d : Pwa β γ) (h : γ → δ) : Pwa α δ :=
  { inDom := fun x => d.inDom (g x), f := fun x => h (d.f (g x)) }

end MenpoModel.C09
