/-
C05 — the VOCABULARY of the source-to-Lean translation of menpo's vectorisation code
(harness/trans_c05.py, written by harness/py2lean2.py + harness/py2lean2w.py into `Generated/C05Src.lean`).

Every numpy / menpo expression that occurs in the translated functions is mapped by a rule of
harness/trans_c05.py to one of the operations below; the translated *functions* (which branch is taken, which
array expression is passed to which setter, which method re-syncs what, in which order) are not written here:
they are regenerated from the source text on every run and proved equal to the definitions of
`Core/Vectorize.lean` in `GenProps/C05Src.lean`.  Where an operation already exists in Core/Vectorize.lean
(`chunks`, `fillDiagAux`, `setRotBase`, `applyAff`, `maskFilter`, `overlay`, …) the vocabulary reuses it.
Core Lean only (no Mathlib).
-/
import MenpoModel.Core.Vectorize

namespace MenpoModel.C05.Np
open MenpoModel.C05

/-! ## numpy on vectors (`Vec`) and matrices (`Mat` = list of rows) -/

/-- `a.shape[0]` / `len(a)` / `a.size` of a 1-d array -/
def shape0 {α} (l : List α) : Nat := l.length
/-- `m.shape[1]` -/
def ncols (m : Mat) : Nat := (m.headD []).length
/-- `m.shape` (as a Python tuple: `len(shape)`, `shape[0]`, `shape[1]`) -/
def shapeOf (m : Mat) : List Nat := [m.length, ncols m]

/-- `l[i]` for a non-negative literal index (0 beyond the end: the callers check the length first) -/
def at1 {α} [OfNat α 0] (l : List α) (i : Nat) : α := l.getD i 0
/-- `m[i, j]` -/
def at2 (m : Mat) (i j : Nat) : Rat := (m.getD i []).getD j 0
/-- `v[[i₀, i₁, …]]` (integer-array indexing of a 1-d array) -/
def takeIdx (v : Vec) (idx : List Nat) : Vec := idx.map (fun i => v.getD i 0)
/-- the same where an index beyond the end is Python's IndexError -/
def takeIdxE (v : Vec) (idx : List Nat) : Except Err Vec :=
  if idx.all (fun i => decide (i < v.length)) then .ok (takeIdx v idx) else .error .other

/-- `np.eye(n)`: row `i` of the `n × n` identity, by structural recursion (so that `simp` / `decide` evaluate it) -/
def unitRow : Nat → Nat → Vec
  | 0, _ => []
  | k+1, 0 => 1 :: List.replicate k 0
  | k+1, i+1 => 0 :: unitRow k i
def eyeAux (n : Nat) : Nat → Nat → Mat
  | 0, _ => []
  | k+1, i => unitRow n i :: eyeAux n k (i+1)
def eye (n : Nat) : Mat := eyeAux n n 0

/-- element-wise `a - b` on matrices / vectors, unary minus on vectors -/
def matSub (a b : Mat) : Mat := List.zipWith (List.zipWith (· - ·)) a b
def vecNeg (v : Vec) : Vec := v.map (fun x => -x)
/-- Python's `a - b` on two 2-d arrays -/
scoped instance : Sub Mat := ⟨matSub⟩
/-- `K /= c` -/
def matDiv (m : Mat) (c : Rat) : Mat := m.map (fun r => r.map (fun x => x / c))

/-- `m[:n, :]` -/
def topRows (n : Nat) (m : Mat) : Mat := m.take n
/-- columns `j, j+1, …` (fuel `k`) of a matrix, as lists -/
def colsFrom (m : Mat) : Nat → Nat → List Vec
  | 0, _ => []
  | k+1, j => m.map (fun r => r.getD j 0) :: colsFrom m k (j+1)
/-- `m.ravel(order='F')` -/
def ravelF (m : Mat) : Vec := (colsFrom m (ncols m) 0).flatten
/-- `m.ravel()` -/
def ravelC (m : Mat) : Vec := m.flatten

/-- `p.reshape((a, b), order='F')` of a vector of `a * b` entries: entry `(i, j)` is `p[j * a + i]` -/
def rowF (p : Vec) (a : Nat) (i : Nat) : Nat → Nat → Vec
  | 0, _ => []
  | k+1, j => p.getD (j * a + i) 0 :: rowF p a i k (j+1)
def reshapeFAux (p : Vec) (a b : Nat) : Nat → Nat → Mat
  | 0, _ => []
  | k+1, i => rowF p a i b 0 :: reshapeFAux p a b k (i+1)
def reshapeF (a b : Nat) (p : Vec) : Mat := reshapeFAux p a b a 0

/-- `v.reshape(m.shape)` -/
def reshapeLike (v : Vec) (m : Mat) : Except Err Mat :=
  if v.length = m.length * ncols m then .ok (chunks (ncols m) m.length v) else .error .value

/-- `h[:n, :] += e` -/
def addTop (n : Nat) (h e : Mat) : Mat :=
  List.zipWith (List.zipWith (· + ·)) (h.take n) e ++ h.drop n
/-- `h[i, j] = v` -/
def set2 (h : Mat) (i j : Nat) (v : Rat) : Mat := h.set i ((h.getD i []).set j v)
/-- `h[:n, j] = v` (column `j` of the first `n` rows) -/
def setColTop (h : Mat) (n j : Nat) (v : Vec) : Mat :=
  List.zipWith (fun row t => row.set j t) (h.take n) v ++ h.drop n

/-- `h[:-1, -1]` -/
def lastColTop (h : Mat) : Vec := h.dropLast.map (fun r => r.getLastD 0)
/-- `h[:-1, -1] = p` with numpy's broadcasting of a length-1 `p`; any other length mismatch is a ValueError -/
def assignLastColTop (h : Mat) (p : Vec) : Except Err Mat :=
  let d := h.length - 1
  if p.length = d then
    .ok ((List.zipWith (fun row t => row.dropLast ++ [t]) h.dropLast p) ++ h.drop d)
  else if p.length = 1 then
    .ok ((h.dropLast.map (fun row => row.dropLast ++ [p.headD 0])) ++ h.drop d)
  else .error .value

/-- `np.fill_diagonal(h, v)` (numpy repeats / truncates `v`) -/
def fillDiag (h : Mat) (v : Vec) : Mat := fillDiagAux v 0 h
/-- `h[-1, -1] = 1` -/
def setCornerOne (g : Mat) : Mat :=
  match g.getLast? with
  | none => g
  | some r => g.dropLast ++ [r.set (g.length - 1) 1]

/-- `np.allclose(m[-1, :-1], 0)` / `np.allclose(m[-1, -1], 1)` (exact in the rational model) -/
def bottomRowZero (m : Mat) : Bool := ((m.getLastD []).dropLast).all (· == 0)
def cornerOne (m : Mat) : Bool := (m.getLastD []).getLastD 0 == 1

/-- `np.finfo(float).eps` -/
def epsF : Rat := mkRat 1 (2 ^ 52)

/-- `p * np.sqrt(s)`: a vector times the square root of a non-negative rational, kept symbolic -/
structure SqrtScaled where
  v : Vec
  s : Rat
def scaleSqrt (p : Vec) (s : Rat) : SqrtScaled := ⟨p, s⟩
/-- `np.outer(q, q)` for `q = p * sqrt(s)`: entry `(i, j)` is `s * (pᵢ pⱼ)` — the only use the code makes of the
square root, and exact (`√s · √s = s`) -/
def outerSelf (q : SqrtScaled) : Mat := q.v.map (fun a => q.v.map (fun b => q.s * (a * b)))

/-- `w, V = np.linalg.eigh(K)` with `eigh` as the contract parameter of Core/Vectorize.lean (`eig K` = the unit
eigenvector of the largest eigenvalue): `w` is only ever used as `np.argmax(w)`, `V` only as `V[idx, argmax]` -/
structure EighResult where
  top : Vec
/-- `eigh` reads the lower triangle only (`UPLO='L'`): the symmetric matrix it decomposes -/
def symRow (K : Mat) (i : Nat) : Nat → Nat → Vec
  | 0, _ => []
  | k+1, j => (if j ≤ i then at2 K i j else at2 K j i) :: symRow K i k (j+1)
def symAux (K : Mat) : Nat → Nat → Mat
  | 0, _ => []
  | k+1, i => symRow K i K.length 0 :: symAux K k (i+1)
def symLower (K : Mat) : Mat := symAux K K.length 0
def eigh (eig : Mat → Vec) (K : Mat) : Except Err (Unit × EighResult) :=
  match eig (symLower K) with
  | [e0, e1, e2, e3] => .ok ((), ⟨[e0, e1, e2, e3]⟩)
  | _ => .error .other
/-- `V[idx, np.argmax(w)]` -/
def topColumn (_w : Unit) (V : EighResult) (idx : List Nat) : Vec := takeIdx V.top idx

/-! ## alignment plumbing: targets are point arrays (`Mat`, one row per point); `[]` is Python's `None` -/

/-- `cloud.n_dims` / `cloud.n_points` of a PointCloud held as its `(n, d)` array -/
def cloudDims (t : Mat) : Nat := ncols t
def cloudPoints (t : Mat) : Nat := t.length

/-- `self.apply(self.source)` of a member of the affine family (`Affine._apply`, Core `applyAff`) -/
def applyToSource (x : Xf) : Except Err Mat := applyAff x.h x.src

/-- the classes that supply the re-sync methods -/
inductive SSup | Targetable | Alignment | absent | unknown
  deriving DecidableEq, Repr

/-- one row per alignment class: who supplies `_sync_target_from_state`, `_new_target_from_state`,
`_target_setter_with_verification`, `_verify_target`, `_target_setter`, `aligned_source` (regenerated from the live
MRO into `Generated/C05Sync.lean`) -/
structure SyncRow where
  cls : Cls
  sync : SSup
  newTarget : SSup
  setterV : SSup
  verify : SSup
  setter : SSup
  aligned : SSup
  deriving DecidableEq, Repr

def expectedSync : List SyncRow := [
  ⟨.AlignmentAffine, .Targetable, .Alignment, .Targetable, .Targetable, .Alignment, .Alignment⟩,
  ⟨.AlignmentSimilarity, .Targetable, .Alignment, .Targetable, .Targetable, .Alignment, .Alignment⟩,
  ⟨.AlignmentTranslation, .Targetable, .Alignment, .Targetable, .Targetable, .Alignment, .Alignment⟩,
  ⟨.AlignmentUniformScale, .Targetable, .Alignment, .Targetable, .Targetable, .Alignment, .Alignment⟩,
  ⟨.AlignmentRotation, .Targetable, .Alignment, .Targetable, .Targetable, .Alignment, .Alignment⟩ ]

def noSyncRow : SyncRow := ⟨.unknown, .unknown, .unknown, .unknown, .unknown, .unknown, .unknown⟩

/-! ## shapes -/

/-- `v.reshape([-1, d])` of a flat vector: the flat list is kept, numpy's divisibility check is made -/
def reshapeNeg1 (v : Vec) (d : Nat) : Except Err Vec :=
  if d = 0 then .error .value else if v.length % d ≠ 0 then .error .value else .ok v

/-- `TexturedTriMesh(points, self.tcoords.points, self.texture, trilist=self.trilist)`: a new mesh without landmarks -/
def mkTextured (pts : Vec) (s : Shape) : Shape :=
  { cls := .TexturedTriMesh, d := s.d, points := pts, nVert := s.nVert, tris := s.tris, extra := s.extra, lms := [] }

/-! ## images -/

/-- an `(n_channels, *shape)` pixel array: the spatial shape and one raster-ordered list per channel -/
structure PixArr where
  shape : List Nat
  chans : List (List Rat)
  deriving DecidableEq, Repr

/-- what `_as_vector(keep_channels=…)` returns: a flat vector or a `(n_channels, -1)` array -/
inductive Arr
  | flat (v : Vec)
  | rows (r : List Vec)
  deriving DecidableEq, Repr

def pixelsOf (x : Img) : PixArr := ⟨x.shape, x.chans⟩

/-- `x.mask`: the mask image of a masked image (held as its Boolean raster), and the Boolean array of a mask image
(`self.mask.mask`): a mask image IS its raster in the model, so the second reading is the identity -/
class HasMask (α : Type) where
  mask : α → List Bool
instance : HasMask Img := ⟨fun x => x.mask⟩
instance : HasMask (List Bool) := ⟨id⟩
@[simp] theorem mask_img (x : Img) : HasMask.mask x = x.mask := rfl
@[simp] theorem mask_raster (m : List Bool) : HasMask.mask m = m := rfl
/-- the C-order ravel of what is being reshaped: a 1-d vector, or a `(k, -1)` array held as its rows -/
class ToFlat (α : Type) where
  toFlat : α → Vec
instance : ToFlat Vec := ⟨id⟩
instance : ToFlat (List Vec) := ⟨List.flatten⟩
/-- `a.reshape((k,) + shape)` -/
def reshapeImg {α : Type} [ToFlat α] (a : α) (k : Nat) (shape : List Nat) : Except Err PixArr :=
  if (ToFlat.toFlat a).length = k * prod shape then .ok ⟨shape, chunks (prod shape) k (ToFlat.toFlat a)⟩
  else .error .value
/-- `vector.reshape((k, -1))` -/
def reshapeRows (v : Vec) (k : Nat) : Except Err (List Vec) :=
  if k = 0 then .error .value else if v.length % k ≠ 0 then .error .value else .ok (chunks (v.length / k) k v)
/-- `np.zeros((k,) + shape, dtype=…)` -/
def zerosImg (k : Nat) (shape : List Nat) : PixArr := ⟨shape, List.replicate k (List.replicate (prod shape) 0)⟩
/-- `canvas[..., mask] = rows` with numpy's broadcasting of `(c, 1)` rows; other width mismatches are a ValueError -/
def assignMasked (d : PixArr) (mask : List Bool) (rows : List Vec) : Except Err PixArr :=
  let w := (rows.headD []).length
  if w = countTrue mask then .ok ⟨d.shape, List.zipWith (overlay mask) d.chans rows⟩
  else if w = 1 then .ok ⟨d.shape, List.zipWith (overlay mask) d.chans (broadcastRows (countTrue mask) rows)⟩
  else .error .value
/-- `Image(data, copy=…)` / `MaskedImage(data, mask=self.mask)` / `BooleanImage(data, copy=…)`: fresh objects, no landmarks -/
def mkImage (d : PixArr) : Img := ⟨.Image, d.shape, d.chans, [], []⟩
def mkMasked (d : PixArr) (mask : List Bool) : Img := ⟨.MaskedImage, d.shape, d.chans, mask, []⟩
/-- `vector.reshape(self.shape)` (one implicit channel) -/
def reshapeShape (v : Vec) (shape : List Nat) : Except Err (List Nat × Vec) :=
  if v.length = prod shape then .ok (shape, v) else .error .value
def mkBoolean (d : List Nat × Vec) : Img := ⟨.BooleanImage, d.1, [d.2.map toBool], [], []⟩

/-! ## flags of the returned array -/

/-- an array value together with its `flags.writeable` -/
structure Flagged (β : Type) where
  val : β
  writeable : Bool
  deriving DecidableEq, Repr

/-- what a call hands back: a fresh array object (a view or a new array), writable -/
def arrayObject {β : Type} (v : β) : Flagged β := ⟨v, true⟩

end MenpoModel.C05.Np
