/-
C16 — the range conversion of menpo/image/base.py for ANY integer range `0 … N` (uint8: N = 255, uint16: N = 65535)
in exact arithmetic with explicit binary64 rounding.  Executable model, core Lean only.

  normalize_pixels_range      pixels * (1.0 / max_range)
  denormalize_pixels_range    np.round(pixels * max_range).astype(out_dtype)        (as repaired in /repo)
                              (pixels * max_range).astype(out_dtype)                (as originally coded: truncation)

`rn53` rounds a rational to the nearest number with a 53-bit significand, ties to even — IEEE binary64
round-to-nearest-even wherever neither overflow nor subnormals are involved (here all values lie in
[2⁻¹⁷, 2¹⁶] or are 0).  Each of `1.0 / max_range`, `pixels * c`, `x * max_range` is one correctly rounded operation.
The kernel evaluates these definitions with GMP arithmetic, so the theorems about them need no `Float`.
-/
import MenpoModel.Core.C16

namespace MenpoModel.C16

/-- `2 ^ e` for an integer exponent -/
def pow2 (e : Int) : Rat :=
  if 0 ≤ e then ((2 ^ e.toNat : Nat) : Rat) else 1 / ((2 ^ (-e).toNat : Nat) : Rat)

def absQ (z : Rat) : Rat := if z < 0 then -z else z

/-- the binary exponent `e` with `2^e ≤ |z|` (and `|z| < 2^(e+1)`): estimated from the bit lengths of numerator and
denominator, then CHECKED — `none` (never taken) if neither candidate passes the check -/
def expo (a : Rat) : Option Int :=
  let e0 : Int := (Nat.log2 a.num.natAbs : Int) - (Nat.log2 a.den : Int)
  if pow2 e0 ≤ a then some e0 else if pow2 (e0 - 1) ≤ a then some (e0 - 1) else none

/-- round to nearest, ties to even, at 53 significant bits -/
def rn53 (z : Rat) : Rat :=
  if z = 0 then 0 else
    match expo (absQ z) with
    | none => z
    | some e => (roundHalfEven (z / pow2 (e - 52)) : Rat) * pow2 (e - 52)

/-- `normalize_pixels_range`: `k * (1.0 / N)` -/
def normQ (N k : Nat) : Rat := rn53 ((k : Rat) * rn53 (1 / (N : Rat)))

/-- `denormalize_pixels_range` as repaired: `np.round(x * N)` cast to the integer type -/
def denormRoundQ (N : Nat) (x : Rat) : Int := roundHalfEven (rn53 (x * (N : Rat)))

/-- … and as originally coded: the cast truncates -/
def denormTruncQ (N : Nat) (x : Rat) : Int := (rn53 (x * (N : Rat))).floor

/-- the values of `0 … N` the conversion does not return (`trunc = true`: the coded cast) -/
def lostValues (N : Nat) (trunc : Bool) (lo hi : Nat) : List Nat :=
  ((List.range (hi - lo)).map (· + lo)).filter fun k =>
    (if trunc then denormTruncQ N (normQ N k) else denormRoundQ N (normQ N k)) != (k : Int)

/-! the same conversion on Lean's `Float` (run time only: the driver reports it next to the exact model, the harness
compares both with numpy on every value of the range) -/

def normF (N k : Nat) : Float := Float.ofNat k * (1.0 / Float.ofNat N)
def denormRoundF (N : Nat) (x : Float) : UInt64 := rintF (x * Float.ofNat N)
def denormTruncF (N : Nat) (x : Float) : UInt64 := (x * Float.ofNat N).toUInt64

def lostValuesF (N : Nat) (trunc : Bool) (lo hi : Nat) : List Nat :=
  ((List.range (hi - lo)).map (· + lo)).filter fun k =>
    (if trunc then denormTruncF N (normF N k) else denormRoundF N (normF N k)).toNat != k

end MenpoModel.C16
