/-
C06 — the VOCABULARY of the source-to-Lean translation (harness/trans_c06.py, harness/py2lean2s.py).

`Generated/C06Src.lean` is written on every run from the SOURCE TEXT of the working tree's

  menpo/base.py                         Copyable.copy, LazyList.copy
  menpo/landmark/base.py                LandmarkManager.copy / __init__ / __setitem__ / __getitem__ / __delitem__ /
                                        __len__ / n_groups / has_landmarks / group_labels / n_dims /
                                        _transform_inplace, Landmarkable.landmarks (setter and getter)
  menpo/shape/labelled.py               LabelledPointUndirectedGraph.copy
  menpo/transform/homogeneous/base.py   HomogFamilyAlignment.copy

statement by statement; each Python expression / statement of those bodies that is not a generic form (if, for,
try / except, assignment, return, raise, comparison …) is one of the operations below.  `GenProps/C06Src.lean`
proves every translated body equal to the hand-written model the C06 theorems are about (`copyCall` of
`Core/C06Heap.lean`, the manager machine of `Core/C06Landmarks.lean`).

Python mutates a world of objects in place; here the world is passed around: the heap (`Heap`) for the five `copy`
methods, the `LM.World` for the manager.  Core Lean only.
-/
import MenpoModel.Core.C06Ops
import MenpoModel.Core.C06Landmarks
import MenpoModel.Core.PyLoop

namespace MenpoModel.C06.Src

/-! ## Part 1 — the five `copy` methods on the heap -/

/-- `v.copy()` of an attribute value, resolved by Python for the class of `v`: the recursive call -/
abbrev Rec := Heap → Val → Except Err (Heap × Val)

/-- the receiver of a `copy` method: its class and its `__dict__` -/
structure SelfObj where
  cls : String
  fs : Slots
deriving Repr

/-- the object a `copy` method builds.  It is private to the call until it is returned, so (the liberty of
`Core/C06Heap.lean`) it becomes a heap cell only then; `over` is the same for the one container the two
deepening overrides re-initialise key by key (`new._landmark_groups[k] = …`): attribute name and current
content. -/
structure PObj where
  slots : Slots
  over : Option (String × Slots)
deriving Repr

/-- a blank object (nothing in its `__dict__`) -/
def blank : PObj := ⟨[], none⟩

/-- `cls.__new__(cls)`: a blank instance of the class (the class is that of `self`: it is recorded when the object
becomes a cell, `finish`) -/
def newOf (_cls : String) : PObj := blank

/-- `v.copy()` -/
def callCopy (rec : Rec) (h : Heap) (v : Val) : Except Err (Val × Heap) := (rec h v).map fun r => (r.2, r.1)

/-- `new.__dict__[k] = x` / `new.attr = x`: Python's `dict.__setitem__` (an existing name keeps its position) -/
def setAttr (n : PObj) (k : String) (x : Val) : PObj := { n with slots := putSlot n.slots k x }

/-- `new.__dict__ = d` -/
def withDict (n : PObj) (d : Slots) : PObj := { n with slots := d }

/-- `new.attr` -/
def getAttr (n : PObj) (x : String) : Except Err Val :=
  match n.slots.lookup x with
  | some v => .ok v
  | none => .error .attr

/-- `self.attr` -/
def selfAttr (s : SelfObj) (x : String) : Except Err Val :=
  match s.fs.lookup x with
  | some v => .ok v
  | none => .error .attr

/-- `list(x)`: a new list with the members of the list `x` -/
def listCopy (h : Heap) (x : Val) : Except Err (Val × Heap) :=
  match x with
  | .ref l =>
    match h[l]? with
    | some (.node .list items) => .ok (.ref h.length, h ++ [.node .list items])
    | _ => .error .attr
  | .imm _ => .error .attr

/-- the current content of the dict that attribute `x` of the new object holds -/
def curItems (h : Heap) (n : PObj) (x : String) : Except Err Slots :=
  match n.over with
  | some (y, gs) => if y == x then .ok gs else .error .attr
  | none =>
    match n.slots.lookup x with
    | some (.ref d) =>
      match h[d]? with
      | some (.node .dict gs) => .ok gs
      | _ => .error .attr
    | _ => .error .attr

/-- `new.x.items()` -/
def itemsOf (h : Heap) (n : PObj) (x : String) : Except Err Slots := curItems h n x

/-- `new.x[k] = v` (the dict was created by this very call: it is re-initialised, not written on the heap) -/
def setItem (h : Heap) (n : PObj) (x k : String) (v : Val) : PObj :=
  match curItems h n x with
  | .ok gs => { n with over := some (x, putSlot gs k v) }
  | .error _ => n

/-- `return new` of an override that deepens attribute `x`: the container counts as re-initialised even when it
had no member (allocation order is not observable) -/
def sealOver (h : Heap) (n : PObj) (x : String) : PObj :=
  match n.over with
  | some _ => n
  | none =>
    match curItems h n x with
    | .ok gs => { n with over := some (x, gs) }
    | .error _ => n

/-- the returned object becomes a heap cell (the re-initialised container first) -/
def finish (C : String) (r : PObj × Heap) : Heap × Val :=
  match r.1.over with
  | none => (r.2 ++ [.node (.obj C) r.1.slots], .ref r.2.length)
  | some (x, gs) =>
    (r.2 ++ [.node .dict gs] ++ [.node (.obj C) (putSlot r.1.slots x (.ref r.2.length))], .ref (r.2.length + 1))

/-! ## Part 3 — the lazily created manager: `Landmarkable.landmarks` (getter) and `LandmarkManager.__init__` on the
heap.  `self` of the getter is the address of an object cell; `self` of `__init__` is the object under
construction (a `PObj`: it becomes a cell when the constructor returns, children first). -/

def lmClass : String := "menpo.landmark.base.LandmarkManager"

/-- the cells of a freshly constructed, empty `LandmarkManager` allocated at address `n` (the fragment of the heap
operation `putFresh`): its empty ordered dict, then the manager -/
def lmFrag (n : Nat) : List Cell :=
  [.node .dict [], .node (.obj lmClass) [("_landmark_groups", .ref n)]]

/-- `OrderedDict()`: a new empty dict -/
def newDict (h : Heap) : Val × Heap := (.ref h.length, h ++ [.node .dict []])

/-- `C()`: a blank object is initialised by the (translated) `__init__`, then becomes a cell -/
def construct (C : String) (init : Heap → PObj → PObj × Heap) (h : Heap) : Val × Heap :=
  ((.ref (init h blank).2.length), (init h blank).2 ++ [.node (.obj C) (init h blank).1.slots])

/-- `self.x is None` for the object at address `a` -/
def attrIsNone (h : Heap) (a : Nat) (x : String) : Bool :=
  match h[a]? with
  | some (.node _ fs) =>
    match fs.lookup x with
    | some (.imm _) => true
    | _ => false
  | _ => false

/-- `self.x = v` for the object at address `a` -/
def setAttrAt (h : Heap) (a : Nat) (x : String) (v : Val) : Heap :=
  match h[a]? with
  | some (.node k fs) => h.set a (.node k (putSlot fs x v))
  | _ => h

/-- `self.x` for the object at address `a` -/
def attrAt (h : Heap) (a : Nat) (x : String) : Except Err Val :=
  match h[a]? with
  | some (.node _ fs) =>
    match fs.lookup x with
    | some v => .ok v
    | none => .error .attr
  | _ => .error .attr

/-! ## Part 2 — the landmark manager on the `LM.World` -/

open LM

/-- Python distinguishes the refusals by exception class only -/
inductive PyExc where
  | valueError | attributeError | keyError
  | bad     -- the request names something that does not exist (harness error, as `LM.Err.bad`)
deriving DecidableEq, Repr

def toPy : LM.Err → PyExc
  | .noneKey => .valueError
  | .dim => .valueError
  | .notPC => .valueError
  | .ambiguous => .valueError
  | .attr => .attributeError
  | .missing => .keyError
  | .bad => .bad

/-- `self._landmark_groups` -/
def groups (w : World) (mi : Nat) : Mgr := (w.mgrs[mi]?).getD []

/-- `v.n_dims` of a stored shape -/
def shapeDim (w : World) (a : Nat) : Option Nat := (w.store[a]?).map (·.dim)

/-- `value.n_dims` of what is offered to `__setitem__` -/
def argNDims (w : World) : Arg → Except PyExc (Option Nat)
  | .ext i =>
    match w.exts[i]? with
    | some a =>
      match w.store[a]? with
      | some s => .ok (some s.dim)
      | none => .error .bad
    | none => .error .bad
  | .img d => .ok (some d)
  | .raw => .error .attributeError

/-- `isinstance(value, PointCloud)` -/
def argIsPC : Arg → Bool
  | .ext _ => true
  | _ => false

/-- `value.copy()` of a shape the caller holds: a new cell with an equal value -/
def copyArg (w : World) : Arg → Except PyExc (Nat × World)
  | .ext i =>
    match w.exts[i]? with
    | some a =>
      match w.store[a]? with
      | some s => .ok (w.store.length, { w with store := w.store ++ [s] })
      | none => .error .bad
    | none => .error .bad
  | _ => .error .bad

/-- `v.copy()` of a stored shape -/
def copyShape (w : World) (a : Nat) : Nat × World :=
  (w.store.length, { w with store := w.store ++ [(w.store[a]?).getD default] })

/-- `self._landmark_groups[k] = a` -/
def storeGroup (w : World) (mi k a : Nat) : World :=
  { w with mgrs := w.mgrs.set mi ((groups w mi).setKey k a) }

/-- `self._landmark_groups[group] = a` with a key that may be `None` (never stored: `__setitem__` refuses it) -/
def storeGroupO (w : World) (mi : Nat) (g : Option Nat) (a : Nat) : World :=
  match g with
  | some k => storeGroup w mi k a
  | none => w

/-- `d[group]` -/
def dictGet (m : Mgr) (g : Option Nat) : Except PyExc Nat :=
  match g with
  | some k =>
    match m.lookup k with
    | some a => .ok a
    | none => .error .keyError
  | none => .error .keyError

/-- `del self._landmark_groups[group]` -/
def delGroup (w : World) (mi : Nat) (g : Option Nat) : Except PyExc World :=
  match g with
  | some k =>
    if (groups w mi).any (·.1 == k) then .ok { w with mgrs := w.mgrs.set mi ((groups w mi).delKey k) }
    else .error .keyError
  | none => .error .keyError

/-- `Copyable.copy(self)` of a manager: a new manager whose (shallow-copied) dict holds the same shapes -/
def shallowCopyMgr (w : World) (mi : Nat) : Except PyExc (Nat × World) :=
  match w.mgrs[mi]? with
  | some m => .ok (w.mgrs.length, { w with mgrs := w.mgrs ++ [m] })
  | none => .error .bad

/-- `self._landmark_groups = d` in `__init__` (`self` is the manager being created) -/
def initGroups (w : World) (mi : Nat) (m : Mgr) : World :=
  if mi < w.mgrs.length then { w with mgrs := w.mgrs.set mi m } else { w with mgrs := w.mgrs ++ [m] }

/-- `self.n_dims` of a landmarkable owner -/
def ownerDim (w : World) (o : Nat) : Option Nat := (w.owners[o]?).map (·.dim)

/-- `self._landmarks = j` -/
def setOwnerMgr (w : World) (o j : Nat) : Except PyExc World :=
  match w.owners[o]? with
  | some ow => .ok { w with owners := w.owners.set o { ow with mgr := j } }
  | none => .error .bad

end MenpoModel.C06.Src

namespace MenpoModel.C06

/-- every `__dict__`, dict and list cell has distinct slot names (they are the keys of a Python dict / the
positions of a list): the well-formedness under which the translated `copy` methods are the model's `copyCall`
(`GenProps/C06Src.lean`, `srcCopyObj_eq`); an invariant of `copy` (`copy_preserves_pyDict`) -/
def PyDict (h : Heap) : Prop := ∀ (a : Nat) k fs, h[a]? = some (Cell.node k fs) → (slotNames fs).Nodup

/-- executable form (the driver evaluates it on every sampled live heap) -/
def pyDictB (h : Heap) : Bool :=
  h.all fun c => match c with
    | .buf _ => true
    | .node _ fs => decide (slotNames fs).Nodup

theorem pyDict_of_pyDictB {h : Heap} (hb : pyDictB h = true) : PyDict h := by
  intro a k fs hcell
  have := List.all_eq_true.mp hb _ (List.mem_of_getElem? hcell)
  simpa using this

end MenpoModel.C06
