/-
C14 — further public entry points of `menpo/shape/graph.py` in the executable model:
`Tree.maximum_depth`, `Tree.vertices_at_depth`, `Tree.n_vertices_at_depth` (all built on
`depth_of_vertex`), and the number-of-… accessors that are lengths of modelled lists.
Core Lean only.
-/
import MenpoModel.Core.C14Graph

namespace MenpoModel.C14

/-- `[self.depth_of_vertex(v) for v in range(self.n_vertices)]` (`none` = the walk to the root fails) -/
def Graph.allDepths (g : Graph) (root : Nat) : List (Option Nat) := (List.range g.n).map (g.depth root)

/-- `maximum_depth` : `np.max(all_depths)`; `none` when some `depth_of_vertex` does not return, or on
the empty vertex set (`np.max([])` raises) -/
def Graph.maximumDepth (g : Graph) (root : Nat) : Option Nat :=
  if g.n = 0 then none
  else (g.allDepths root).foldl (fun acc d => match acc, d with
    | some a, some x => some (max a x)
    | _, _ => none) (some 0)

/-- `vertices_at_depth(depth)` -/
def Graph.verticesAtDepth (g : Graph) (root d : Nat) : List Nat :=
  (List.range g.n).filter fun v => g.depth root v == some d

/-- `n_vertices_at_depth(depth)` : the same loop, counting -/
def Graph.nVerticesAtDepth (g : Graph) (root d : Nat) : Nat :=
  (List.range g.n).foldl (fun k v => if g.depth root v == some d then k + 1 else k) 0

/-- `n_children`, `n_parents`, `n_neighbours`, `n_leaves`, `n_edges`, `n_paths` are `len(...)` of the lists -/
def Graph.nChildren (g : Graph) (v : Nat) : Nat := (g.children v).length
def Graph.nParents (g : Graph) (v : Nat) : Nat := (g.parents v).length
def Graph.nLeaves (g : Graph) : Nat := g.leaves.length

end MenpoModel.C14
