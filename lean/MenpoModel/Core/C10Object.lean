/-
C10 — the object layer of `menpo.model.pca.PCAModel` (`VectorizableBackedModel` mixin) and the remaining
vector-level entry points of `LinearVectorModel` / `MeanLinearVectorModel` / `PCAVectorModel`.

`PCAModel` keeps a `template_instance` and converts at the boundary, exactly as coded:

  mean()            = template.from_vector(_mean)
  project(o)        = project_vector(o.as_vector())
  instance(w)       = template.from_vector(instance_vector(w))
  reconstruct(o)    = o.from_vector(reconstruct_vector(o.as_vector()))        (the *argument's* from_vector)
  project_out(o)    = o.from_vector(project_out_vector(o.as_vector()))
  component(i, …)   = template.from_vector(component_vector(i, …))
  project_whitened(o) = project_whitened_vector(o.as_vector())

`VecOps` is what these need of a Vectorizable class; `Lawful` is the round-trip law of property C05
(`from_vector` replaces exactly the vector part and keeps the rest of the receiver).  Two concrete classes
are modelled: `PointCloud` (`points.ravel()` / `reshape(-1, n_dims)`) and `Image`
(`pixels.ravel()` / `reshape((n_channels,) + shape)`), row major, each carrying a tag standing for the
non-vector state (landmarks) so that *whose* `from_vector` is called is observable.
-/
import MenpoModel.Core.C10Linear
import Mathlib.Logic.Equiv.Fin.Basic

namespace MenpoModel.C10
open Matrix

variable {n d k : ℕ}

/-! ### remaining vector-level entry points -/

/-- `LinearVectorModel.project_vectors` (no mean) -/
def linProject (U : Matrix (Fin k) (Fin d) ℚ) (x : Fin d → ℚ) : Fin k → ℚ := x ᵥ* Uᵀ
/-- `LinearVectorModel._instance_vectors_for_full_weights` -/
def linInstance (U : Matrix (Fin k) (Fin d) ℚ) (w : Fin k → ℚ) : Fin d → ℚ := w ᵥ* U
/-- `LinearVectorModel.reconstruct_vectors` -/
def linReconstruct (U : Matrix (Fin k) (Fin d) ℚ) (x : Fin d → ℚ) : Fin d → ℚ := linInstance U (linProject U x)
/-- `LinearVectorModel.project_out_vectors` -/
def linProjectOut (U : Matrix (Fin k) (Fin d) ℚ) (x : Fin d → ℚ) : Fin d → ℚ := x - linInstance U (linProject U x)

/-- `LinearVectorModel.instance_vectors`: the number of weights must *equal* the number of components -/
def exactWeights (k : ℕ) (w : List ℚ) : Option (Fin k → ℚ) :=
  if w.length = k then some fun i => w.getD i.val 0 else none

/-- `PCAVectorModel.instance_vectors`: at most `n_active_components` weights, the others implicitly zero -/
def padWeights (k : ℕ) (w : List ℚ) : Option (Fin k → ℚ) :=
  if w.length > k then none else some fun i => w.getD i.val 0

/-- `PCAVectorModel.instance(weights)` on a weight list -/
def instPadded (U : Matrix (Fin k) (Fin d) ℚ) (m : Fin d → ℚ) (w : List ℚ) : Option (Fin d → ℚ) :=
  (padWeights k w).map (inst U m)

/-- `instance(weights, normalized_weights=True)`: `weights *= eigenvalues ** 0.5`; `sd` is the square root
the code obtains from numpy (contract `sd i ^ 2 = l i`) -/
def instNormalized (U : Matrix (Fin k) (Fin d) ℚ) (m : Fin d → ℚ) (sd w : Fin k → ℚ) : Fin d → ℚ :=
  inst U m (fun i => w i * sd i)

/-- `PCAVectorModel.component(index, with_mean, scale)` -/
def component (U : Matrix (Fin k) (Fin d) ℚ) (m : Fin d → ℚ) (sd : Fin k → ℚ) (i : Fin k) (withMean : Bool)
    (scale : ℚ) : Fin d → ℚ :=
  if withMean then fun j => (scale * sd i) * U i j + m j else U i

/-- `whitened_components()`: `components / sqrt(eigenvalues * n_samples + noise_variance)[:, None]`;
`σ` is that square root (contract `σ i ^ 2 = l i * n_samples + noise`) -/
def whitened (U : Matrix (Fin k) (Fin d) ℚ) (σ : Fin k → ℚ) : Matrix (Fin k) (Fin d) ℚ :=
  Matrix.of fun i j => U i j / σ i

/-- `project_whitened(vector)`: `np.dot(vector, whitened_components.T)` — the mean is *not* subtracted -/
def projectWhitened (U : Matrix (Fin k) (Fin d) ℚ) (σ : Fin k → ℚ) (x : Fin d → ℚ) : Fin k → ℚ :=
  x ᵥ* (whitened U σ)ᵀ

/-! ### `orthonormalize_against_inplace`: `Q = qr(hstack(other.T, self.T))[0].T`, the other model takes the
first `k1` rows, this model the rest -/

def qTop {k1 k2 : ℕ} (Q : Matrix (Fin (k1 + k2)) (Fin d) ℚ) : Matrix (Fin k1) (Fin d) ℚ :=
  Q.submatrix (Fin.castAdd k2) id

def qBot {k1 k2 : ℕ} (Q : Matrix (Fin (k1 + k2)) (Fin d) ℚ) : Matrix (Fin k2) (Fin d) ℚ :=
  Q.submatrix (Fin.natAdd k1) id

/-! ### the Vectorizable interface -/

/-- `as_vector` / `from_vector` of a Vectorizable class with `d` parameters -/
structure VecOps (α : Type) (d : ℕ) where
  asVec : α → Fin d → ℚ
  /-- `receiver.from_vector(v)`: a copy of the receiver with its vector part replaced -/
  fromVec : α → (Fin d → ℚ) → α

/-- the round-trip law (property C05) relative to an observation `rest` of the non-vector state -/
structure Lawful {α ρ : Type} (ops : VecOps α d) (rest : α → ρ) : Prop where
  as_from : ∀ t v, ops.asVec (ops.fromVec t v) = v
  rest_from : ∀ t v, rest (ops.fromVec t v) = rest t
  ext : ∀ a b, ops.asVec a = ops.asVec b → rest a = rest b → a = b

/-- a `PCAModel`: template, active components, mean vector -/
structure ObjModel (α : Type) (d k : ℕ) where
  ops : VecOps α d
  template : α
  U : Matrix (Fin k) (Fin d) ℚ
  m : Fin d → ℚ

namespace ObjModel
variable {α : Type} (M : ObjModel α d k)

def mean : α := M.ops.fromVec M.template M.m
def project (o : α) : Fin k → ℚ := C10.project M.U M.m (M.ops.asVec o)
def inst (w : Fin k → ℚ) : α := M.ops.fromVec M.template (C10.inst M.U M.m w)
def instPadded (w : List ℚ) : Option α := (C10.instPadded M.U M.m w).map (M.ops.fromVec M.template)
def reconstruct (o : α) : α := M.ops.fromVec o (C10.reconstruct M.U M.m (M.ops.asVec o))
def projectOut (o : α) : α := M.ops.fromVec o (C10.projectOut M.U M.m (M.ops.asVec o))
def component (sd : Fin k → ℚ) (i : Fin k) (withMean : Bool) (scale : ℚ) : α :=
  M.ops.fromVec M.template (C10.component M.U M.m sd i withMean scale)
def projectWhitened (σ : Fin k → ℚ) (o : α) : Fin k → ℚ := C10.projectWhitened M.U σ (M.ops.asVec o)

end ObjModel

/-! ### concrete classes -/

/-- vector-backed: `PCAVectorModel` itself -/
def vecOps (d : ℕ) : VecOps (Fin d → ℚ) d := ⟨id, fun _ v => v⟩

/-- `PointCloud` with `p` points in `dims` dimensions; `tag` stands for the landmarks -/
@[ext] structure PC (p dims : ℕ) where
  points : Matrix (Fin p) (Fin dims) ℚ
  tag : ℕ

/-- `points.ravel()` / `vector.reshape([-1, n_dims])` (C order: index `i * dims + j`) -/
def pcOps (p dims : ℕ) : VecOps (PC p dims) (p * dims) where
  asVec o := fun t => o.points (finProdFinEquiv.symm t).1 (finProdFinEquiv.symm t).2
  fromVec o v := { o with points := Matrix.of fun i j => v (finProdFinEquiv (i, j)) }

/-- evaluation helper (an identity, `freezePC_eq`): force the points into an array once -/
def freezePC {p dims : ℕ} (o : PC p dims) : PC p dims :=
  { o with points := ofArr p dims (toArr o.points) }

/-- `Image` with `c` channels of `h × w` pixels; `tag` stands for the landmarks -/
@[ext] structure Img (c h w : ℕ) where
  pixels : Fin c → Fin h → Fin w → ℚ
  tag : ℕ

/-- `pixels.ravel()` / `vector.reshape((n_channels,) + shape)` (C order: index `(ch * h + y) * w + x`) -/
def imgOps (c h w : ℕ) : VecOps (Img c h w) (c * h * w) where
  asVec o := fun t =>
    o.pixels (finProdFinEquiv.symm (finProdFinEquiv.symm t).1).1 (finProdFinEquiv.symm (finProdFinEquiv.symm t).1).2
      (finProdFinEquiv.symm t).2
  fromVec o v := { o with pixels := fun ch y x => v (finProdFinEquiv (finProdFinEquiv (ch, y), x)) }

end MenpoModel.C10
