/-
C10 — vocabulary of the TRANSLATED vector-level methods of menpo/model/linear.py and menpo/model/pca.py
(`Generated/C10SrcLin.lean`, rewritten by harness/trans_c10.py on every `./check C10`): numpy's array expressions as
operations on `Matrix (Fin _) (Fin _) ℚ`.

In the translated definitions `U` is what the property `self.components` returns (for a PCA model: the ACTIVE
components `_components[:n_active_components]`), `m` is `self._mean`, `sd` stands for `self.eigenvalues ** 0.5`
(numpy's square root: a contract parameter).  The raw attribute `self._components` has no word in this vocabulary:
a method that reads it instead of `self.components` is outside the model (seeded change C10-4).
-/
import MenpoModel.Core.C10Object
import MenpoModel.Core.C10Book

namespace MenpoModel.C10.Src
open Matrix MenpoModel.C10

abbrev Mat (a b : ℕ) := Matrix (Fin a) (Fin b) ℚ

variable {r j k d : ℕ}

/-- `v[None, :]` -/
def rowMat (v : Fin d → ℚ) : Mat 1 d := Matrix.of fun _ c => v c
/-- `.flatten()` of an array with one row -/
def flat1 (M : Mat 1 d) : Fin d → ℚ := fun c => M 0 c
/-- `np.dot(a, b)` of 2-D arrays (the callers check the inner dimensions first; numpy raises otherwise) -/
def npDot (a : Mat r j) (b : Mat k d) : Mat r d := if h : j = k then (h ▸ a) * b else 0
/-- `a.shape` -/
def shapeOf (_ : Mat r j) : Nat × Nat := (r, j)

/-- `vectors - mean`, `vectors + mean` (broadcast over the rows), `weights * sd` (broadcast over the rows) -/
instance : HSub (Mat r d) (Fin d → ℚ) (Mat r d) := ⟨fun M v => Matrix.of fun i c => M i c - v c⟩
instance : HAdd (Mat r d) (Fin d → ℚ) (Mat r d) := ⟨fun M v => Matrix.of fun i c => M i c + v c⟩
instance : HMul (Mat r d) (Fin d → ℚ) (Mat r d) := ⟨fun M v => Matrix.of fun i c => M i c * v c⟩
/-- `scalar * vector` -/
instance : HMul ℚ (Fin d → ℚ) (Fin d → ℚ) := ⟨fun c v => fun i => c * v i⟩

/-- `full_weights = np.zeros((n, k)); full_weights[..., :j] = weights` -/
def setLeftCols (f : Mat r k) (w : Mat r j) : Mat r k :=
  Matrix.of fun i c => if h : c.val < j then w i ⟨c.val, h⟩ else f i c

/-- `a / s[:, None]`: every row divided by its own scalar -/
def divRows (a : Mat k d) (s : Fin k → ℚ) : Mat k d := Matrix.of fun i c => a i c / s i

theorem npDot_eq (a : Mat r k) (b : Mat k d) : npDot a b = a * b := by simp [npDot]

end MenpoModel.C10.Src
