/-
C13 — the public entry points around the crop / patch kernels of `Core/C13Crop.lean`
(menpo/image/base.py, menpo/image/masked.py, menpo/image/boolean.py, menpo/shape/pointcloud.py):

  * `PointCloud.bounds / range`, `Image.crop_to_pointcloud`, `crop_to_landmarks`,
    `crop_to_pointcloud_proportion`, `crop_to_landmarks_proportion`,
    `BooleanImage.bounds_true`, `MaskedImage.crop_to_true_mask`;
  * `Image.extract_patches` (the slicing / sampling dispatch on `order` and `mode`),
    `extract_patches_around_landmarks` (which does not forward `order / mode / cval`),
    `as_single_array=False` (list of patch images) and `_convert_patches_list_to_single_array`;
  * `Image.set_patches` (defaults of `offset`, `offset_index`, list input) and
    `set_patches_around_landmarks`.

Core Lean only.  Every definition follows the code that exists, branch for branch; errors raised by
numpy on empty reductions (`np.min([])`) and by python (`ZeroDivisionError`, `IndexError`) are
explicit `Except` branches.
-/
import MenpoModel.Core.C13Crop

namespace MenpoModel.C13

/-! ### PointCloud.bounds / range -/

/-- `np.min(column)` of a non-empty column (`0` for the empty one, which the callers exclude) -/
def minL : List Rat → Rat
  | [] => 0
  | x :: xs => xs.foldl min x

/-- `np.max(column)` -/
def maxL : List Rat → Rat
  | [] => 0
  | x :: xs => xs.foldl max x

/-- coordinate `k` of every point -/
def column (pts : List (List Rat)) (k : Nat) : List Rat := pts.map fun p => p.getD k 0

/-- number of dimensions of a point cloud (`points.shape[1]`) -/
def pcDims (pts : List (List Rat)) : Nat := (pts.headD []).length

/-- `PointCloud.bounds(boundary)`: `(np.min(points, axis=0) - boundary, np.max(points, axis=0) + boundary)` -/
def pcBounds (pts : List (List Rat)) (boundary : Rat) : List Rat × List Rat :=
  ((List.range (pcDims pts)).map fun k => minL (column pts k) - boundary,
   (List.range (pcDims pts)).map fun k => maxL (column pts k) + boundary)

/-- `PointCloud.range()`: `max_b - min_b` of `bounds(0)` -/
def pcRange (pts : List (List Rat)) : List Rat :=
  (List.range (pcDims pts)).map fun k => maxL (column pts k) - minL (column pts k)

/-! ### crop wrappers -/

/-- `Image.crop_to_pointcloud(pointcloud, boundary, constrain_to_boundary)`; an empty cloud makes
`np.min(points, axis=0)` raise ValueError.  `crop_to_landmarks(group, …)` is the same call on
`self.landmarks[group]`. -/
def cropToPointcloud {α : Type} (v : Variant) (pix : NDArr α) (pts : List (List Rat)) (boundary : Rat)
    (constrain : Bool) (zero : α) (lms : List (List Rat)) : Except Err (NDArr α × List (List Rat)) :=
  if pts.isEmpty then .error .value
  else crop v pix (pcBounds pts boundary).1 (pcBounds pts boundary).2 constrain zero lms

/-- `boundary_proportion * np.min(pointcloud.range())` (`minimum=True`) or `… * np.max(…)` -/
def proportionBoundary (pts : List (List Rat)) (proportion : Rat) (minimum : Bool) : Rat :=
  proportion * (if minimum then minL (pcRange pts) else maxL (pcRange pts))

/-- `Image.crop_to_pointcloud_proportion`; `crop_to_landmarks_proportion` is the same call on
`self.landmarks[group]`.  A cloud without points raises in `np.min`, one without dimensions in
`np.min(range())`. -/
def cropToPointcloudProportion {α : Type} (v : Variant) (pix : NDArr α) (pts : List (List Rat))
    (proportion : Rat) (minimum constrain : Bool) (zero : α) (lms : List (List Rat)) :
    Except Err (NDArr α × List (List Rat)) :=
  if pts.isEmpty || pcDims pts == 0 then .error .value
  else cropToPointcloud v pix pts (proportionBoundary pts proportion minimum) constrain zero lms

/-- `BooleanImage.true_indices()`: the spatial multi-indices of the `True` pixels in C order -/
def trueIndices (mask : NDArr Bool) : List (List Nat) :=
  (indices mask.shape.tail).filter fun p => mask.getD (0 :: p) false

def natPts (l : List (List Nat)) : List (List Rat) := l.map fun p => p.map fun (i : Nat) => (i : Rat)

/-- `MaskedImage.crop_to_true_mask(boundary, constrain_to_boundary)`:
`mask.bounds_true(boundary, constrain_to_bounds=False)` = `(min(true indices) - boundary,
max(true indices) + boundary)` handed to `crop`; an all-false mask raises ValueError in `np.max`. -/
def cropToTrueMask {α : Type} (v : Variant) (pix : NDArr α) (mask : NDArr Bool) (boundary : Int)
    (constrain : Bool) (zero : α) (lms : List (List Rat)) : Except Err (NDArr α × List (List Rat)) :=
  cropToPointcloud v pix (natPts (trueIndices mask)) (boundary : Rat) constrain zero lms

/-! ### Image.extract_patches and its options -/

/-- `Image.extract_patches(…, order, mode, cval)` with `as_single_array=True`: the fast slicing path
is taken exactly for `order == 0 and mode == 'constant'`; `sampler order mode` stands for
`map_coordinates(pixels[c], pt, order=order, mode=mode, cval=cval)`. -/
def extractPatches {α : Type} (v : Variant) (sampler : Nat → Mode → Nat → Pt → α) (pix : NDArr α)
    (centres : List Pt) (ph pw : Nat) (offsets : Option (List Pt)) (order : Nat) (mode : Mode) (cval : α) :
    Except Err (NDArr α) :=
  if order = 0 ∧ mode = .constant then extractSlice pix centres ph pw offsets cval
  else match pix.shape with
    | [C, _, _] => extractSampling v (sampler order mode) C ph pw centres offsets cval
    | _ => .error .value

/-- the sampler of rational pixel arrays (orders 0 and 1, modes constant and nearest) -/
def ratSampler (pix : NDArr Rat) (cval : Rat) : Nat → Mode → Nat → Pt → Rat :=
  fun order mode c pt => sampleRat order mode pix c [pt.1, pt.2] cval

/-- `Image.extract_patches_around_landmarks(group, patch_shape, sample_offsets)`: forwards neither
`order`, `mode` nor `cval`, so it is always the slicing path with fill value `0` -/
def extractAroundLandmarks {α : Type} (pix : NDArr α) (lms : List Pt) (ph pw : Nat)
    (offsets : Option (List Pt)) (zero : α) : Except Err (NDArr α) :=
  extractSlice pix lms ph pw offsets zero

/-- patch `(i, j)` of a single array as its own `(C, ph, pw)` array -/
def patchAt {α : Type} (a : NDArr α) (dflt : α) (ij : List Nat) : NDArr α :=
  ofFn (a.shape.drop 2) fun idx => a.getD (ij ++ idx) dflt

/-- `as_single_array=False`: `[Image(o, copy=False) for p in single_array for o in p]` -/
def toPatchList {α : Type} (a : NDArr α) (dflt : α) : List (NDArr α) :=
  (indices (a.shape.take 2)).map (patchAt a dflt)

/-- element `[i, j, c, r, q]` of the array assembled from a patch list -/
def listElem {α : Type} (l : List (NDArr α)) (k : Nat) (dflt : α) : List Nat → α
  | i :: j :: rest => ((l[i * k + j]?).map fun (p : NDArr α) => p.getD rest dflt).getD dflt
  | _ => dflt

/-- `_convert_patches_list_to_single_array(patches_list, n_center)`:
`n_offsets = int(len / n_center)` (ZeroDivisionError for no centres), channel count and patch shape
of the first list entry (IndexError for an empty list), entries copied in order. -/
def fromPatchList {α : Type} (l : List (NDArr α)) (n : Nat) (dflt : α) : Except Err (NDArr α) :=
  if n = 0 then .error .zerodiv
  else match l with
    | [] => .error .index
    | p0 :: _ =>
      .ok (ofFn (n :: l.length / n :: p0.shape) (listElem l (l.length / n) dflt))

/-! ### Image.set_patches -/

/-- the `patches` argument of `Image.set_patches`: an array or a list of patch images -/
inductive PatchArg (α : Type)
  | single (a : NDArr α)
  | list (l : List (NDArr α))

/-- `Image.set_patches(patches, patch_centers, offset=None, offset_index=None)`:
`offset=None` is `(0, 0)`, `offset_index=None` is `0`, a list is converted first. -/
def setPatchesApi {α : Type} (v : Variant) (patches : PatchArg α) (pix : NDArr α) (centres : List Pt)
    (offset : Option (Int × Int)) (offsetIndex : Option Nat) (dflt : α) : Except Err (NDArr α) :=
  match patches with
  | .single a => setPatches v a pix centres (offset.getD (0, 0)) (offsetIndex.getD 0) dflt
  | .list l =>
    match fromPatchList l centres.length dflt with
    | .error e => .error e
    | .ok a => setPatches v a pix centres (offset.getD (0, 0)) (offsetIndex.getD 0) dflt

end MenpoModel.C13
