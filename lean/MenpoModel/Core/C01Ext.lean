/-
C01 — extension of the executable model (core Lean only, no Mathlib).

  1. any interpolation order: the funnel over an arbitrary point sampler (`warpS2`), the order dispatch of the
     public API (`samplerOf`: 0 = nearest, 1 = multilinear, 2..5 = spline with prefilter, library code → a
     contract parameter) and the object-level result of an operation on each image class (`Plan2.exec`:
     pixels, mask, landmarks, returned transform);
  2. smooth non-affine warps: the bilinear interpolation of the transform itself over the template grid
     (`interpT`), the quantity that measures how far a warp is from affine on one cell;
  3. the remaining public entry points as plans: `rescale_to_diagonal`, `rescale_to_pointcloud`,
     `rescale_landmarks_to_diagonal_range` (their square roots are contract parameters), `crop_to_true_mask`
     (the point set is computed from the mask), `constrain_landmarks_to_bounds`;
  4. `gaussian_pyramid`: `scipy.ndimage.gaussian_filter` as a separable correlation with a symmetric kernel given
     by its half weights and the `reflect` boundary rule (`blur2`), followed by the pyramid step;
  5. `pseudoinverse()` of every class of the homogeneous family, by the class that supplies it (`pinvBy`);
  6. sequences of operations (`chainRun`): the image, mask and landmarks after a list of operations and the
     composition of the returned transforms;
  7. what each operation hands to the funnel (`FunnelArgs`): compared on every run with a table recorded from
     the live code.
-/
import MenpoModel.Core.C01Warp

namespace MenpoModel.C01

/-! ## 1. any interpolation order -/

/-- `Image.sample(points, order, mode, cval)` with order and mode fixed: any function of image and point -/
abbrev Sampler2 := Img2 → V2 → Rat

/-- the funnel for an arbitrary sampler and an arbitrary transform -/
def warpS2 (S : Sampler2) (im : Img2) (h w : Nat) (T : V2 → V2) : Img2 :=
  ⟨h, w, fun i j => S im (T (gridPt2 i j))⟩

/-- the order dispatch of `map_coordinates`: 0 and 1 are modelled, 2..5 are spline interpolation with a
prefilter (library code): `spl k m` is a contract parameter -/
def samplerOf (spl : Nat → Mode → Sampler2) (order : Nat) (m : Mode) : Sampler2 :=
  match order with
  | 0 => Img2.sample .nearest m
  | 1 => Img2.sample .linear m
  | k + 2 => spl (k + 2) m

/-- what spline interpolation of every order promises (and orders 0, 1 satisfy): at a grid point of the image the
sampler returns that pixel -/
def Interpolating (S : Sampler2) : Prop :=
  ∀ (im : Img2) (i j : Int), 0 ≤ i → i ≤ (im.h : Int) - 1 → 0 ≤ j → j ≤ (im.w : Int) - 1 →
    S im (gridPt2 i j) = im.px i j

inductive ImgClass | image | masked | boolean
deriving Repr, DecidableEq

/-- everything an operation returns -/
structure Warped2 where
  px : Img2
  mask : Option Img2
  lms : List V2
  T : Aff2

/-- the order that reaches `map_coordinates` for the pixels: the one forced by the operation, else the caller's -/
def Plan2.effOrder (p : Plan2) (order : Nat) : Nat :=
  match p.order with
  | some .nearest => 0
  | some .linear => 1
  | none => order

/-- one operation on an image of class `cls` called with `order=order`:
`Image.warp_to_shape` samples the pixels with the requested order; `MaskedImage.warp_to_shape` does the same and
warps the mask separately (`BooleanImage.warp_to_shape`, order 0, the same transform); a `BooleanImage` is warped
with order 0 whatever was requested; the landmarks are moved by the pseudoinverse in all three -/
def Plan2.exec (p : Plan2) (spl : Nat → Mode → Sampler2) (cls : ImgClass) (order : Nat) (im mk : Img2)
    (lms : List V2) : Warped2 :=
  match cls with
  | .image => ⟨warpS2 (samplerOf spl (p.effOrder order) p.mode) im p.h p.w p.T.apply, none, lms.map p.landmark, p.T⟩
  | .masked => ⟨warpS2 (samplerOf spl (p.effOrder order) p.mode) im p.h p.w p.T.apply, some (p.runMask mk),
                lms.map p.landmark, p.T⟩
  | .boolean => ⟨p.runMask im, none, lms.map p.landmark, p.T⟩

/-! ## 2. how far a transform is from affine on one cell of the template grid -/

def txImg (h w : Nat) (T : V2 → V2) : Img2 := ⟨h, w, fun i j => (T (gridPt2 i j)).x⟩
def tyImg (h w : Nat) (T : V2 → V2) : Img2 := ⟨h, w, fun i j => (T (gridPt2 i j)).y⟩

/-- the transform sampled on the template grid and interpolated bilinearly at `p`.  For an affine transform this
is `T p`; for a piecewise affine warp or a spline it differs from `T p` by the non-linearity of the transform on
the cell of `p` -/
def interpT (h w : Nat) (T : V2 → V2) (p : V2) : V2 :=
  ⟨(txImg h w T).core .linear p, (tyImg h w T).core .linear p⟩

def absR (x : Rat) : Rat := if x < 0 then -x else x

/-! ## 3. the remaining public entry points -/

/-- `Image.rescale_to_diagonal(diagonal, round)`: `rescale(diagonal / self.diagonal(), round=round)` — the order
is not forwarded, so the default (1) is used.  `dg` stands for `self.diagonal() = sqrt(h² + w²)` (contract
parameter: `0 < dg`, `dg * dg = h² + w²`) -/
def rescaleToDiagonalPlan2 (h w : Nat) (diagonal dg : Rat) (r : Rounding) : Except Err Plan2 :=
  if dg ≤ 0 then .error .degenerate
  else match rescalePlan2 h w (diagonal / dg) (diagonal / dg) r with
    | .error e => .error e
    | .ok p => .ok (p.withOrder .linear)

/-- sum of squared distances to the centroid: `PointCloud.norm()²` -/
def centredSS (pts : List V2) : Rat :=
  let n : Rat := (pts.length : Rat)
  let mx := (pts.map (·.x)).sum / n
  let my := (pts.map (·.y)).sum / n
  (pts.map fun p => (p.x - mx) * (p.x - mx) + (p.y - my) * (p.y - my)).sum

/-- `Image.rescale_to_pointcloud(target, group, round, order)`:
`rescale(AlignmentUniformScale(landmarks, target).as_vector()[0])`, the scale being
`target.norm() / landmarks.norm()`; `ns`, `nt` stand for the two norms (contract parameters:
positive, `ns * ns = centredSS landmarks`, `nt * nt = centredSS target`) -/
def rescaleToPointcloudPlan2 (h w : Nat) (ns nt : Rat) (r : Rounding) : Except Err Plan2 :=
  if ns ≤ 0 then .error .degenerate else rescalePlan2 h w (nt / ns) (nt / ns) r

/-- per-axis range of a point set (`PointCloud.range()`) -/
def rangeOf (pts : List V2) : V2 :=
  let b := boundsOf pts 0
  ⟨b.2.x - b.1.x, b.2.y - b.1.y⟩

/-- `Image.rescale_landmarks_to_diagonal_range(diagonal_range, group, round, order)`:
`rescale(diagonal_range / sqrt(x² + y²))` with `(x, y)` the range of the group; `rg` stands for the square root
(contract parameter: positive, `rg * rg = x² + y²`) -/
def rescaleLandmarksToDiagonalRangePlan2 (h w : Nat) (diagonalRange rg : Rat) (r : Rounding) : Except Err Plan2 :=
  if rg ≤ 0 then .error .degenerate else rescalePlan2 h w (diagonalRange / rg) (diagonalRange / rg) r

/-- `BooleanImage.true_indices()`: the indices of the non-zero pixels in row-major order -/
def trueRow (mk : Img2) (i : Nat) : Nat → List V2
  | 0 => []
  | j + 1 => trueRow mk i j ++ (if mk.px (i : Int) (j : Int) = 0 then [] else [⟨(i : Rat), (j : Rat)⟩])
def trueRows (mk : Img2) : Nat → List V2
  | 0 => []
  | i + 1 => trueRows mk i ++ trueRow mk i mk.w
def trueIndices (mk : Img2) : List V2 := trueRows mk mk.h

/-- `MaskedImage.crop_to_true_mask(boundary, constrain_to_boundary)`:
`crop(*mask.bounds_true(boundary, constrain_to_bounds=False))`; an all-`False` mask makes `np.max` raise -/
def cropToTrueMaskPlan2 (mk : Img2) (boundary : Rat) (constrain : Bool) : Except Err Plan2 :=
  match trueIndices mk with
  | [] => .error .value
  | pts => cropToPointsPlan2 mk.h mk.w pts boundary constrain

/-- `Image.constrain_landmarks_to_bounds()` on one landmark: every coordinate is clamped into `[0, n − 1]`
(in place: pixels, mask and shape stay) -/
def constrainLandmark (h w : Nat) (l : V2) : V2 := ⟨clampR h l.x, clampR w l.y⟩

/-! ## 4. `gaussian_pyramid` -/

/-- scipy's `reflect` extension `(d c b a | a b c d | d c b a)`, then clamped (the kernel radius is smaller than
the axis in every use, so one fold suffices; the clamp keeps reads inside the table) -/
def reflectI (n : Nat) (i : Int) : Int :=
  clampI n (if i < 0 then -i - 1 else if (n : Int) ≤ i then 2 * (n : Int) - 1 - i else i)

/-- the two sides of a symmetric correlation: `Σ_k w_k · (f(i − k) + f(i + k))`, `k` running from `k₀` -/
def sideSum (n : Nat) (f : Int → Rat) (i : Int) : Nat → List Rat → Rat
  | _, [] => 0
  | k, wt :: ws => wt * (f (reflectI n (i - (k : Int))) + f (reflectI n (i + (k : Int)))) + sideSum n f i (k + 1) ws

/-- `scipy.ndimage.correlate1d(mode='reflect')` with a symmetric kernel given by its half weights
`w₀ (centre), w₁, …, w_r` -/
def blurAxis (wts : List Rat) (n : Nat) (f : Int → Rat) (i : Int) : Rat :=
  match wts with
  | [] => f i
  | w0 :: ws => w0 * f i + sideSum n f i 1 ws

/-- total weight of the kernel -/
def kernelSum : List Rat → Rat
  | [] => 1
  | w0 :: ws => w0 + 2 * ws.sum

/-- `gaussian_filter(image, sigma)`: axis 0 first, then axis 1, the same kernel on both -/
def blur2 (wts : List Rat) (im : Img2) : Img2 :=
  ⟨im.h, im.w, fun i j =>
    blurAxis wts im.w (fun j' => blurAxis wts im.h (fun i' => im.px i' j') i) j⟩

/-- level `k` of `Image.gaussian_pyramid(n_levels, downscale, sigma)`:
`image = gaussian_filter(image, sigma).rescale(1.0 / downscale)`; the filter leaves mask and landmarks alone -/
def gaussPyramid2 (wts : List Rat) (downscale : Rat) (o : Interp) :
    Nat → Img2 × Img2 × List V2 → Except Err (Img2 × Img2 × List V2)
  | 0, s => .ok s
  | k + 1, s =>
    match gaussPyramid2 wts downscale o k s with
    | .error e => .error e
    | .ok (im, mk, lms) =>
      match pyramidStep2 im.h im.w downscale with
      | .error e => .error e
      | .ok p => .ok (p.run o (blur2 wts im), p.runMask mk, lms.map p.landmark)

/-! ## 5. `pseudoinverse()` by supplying class -/

/-- the class whose `__dict__` supplies `pseudoinverse` -/
inductive PinvProvider
  | homogeneous       -- `Homogeneous.pseudoinverse`: `np.linalg.inv(h_matrix)`
  | alignment         -- `HomogFamilyAlignment.pseudoinverse`: copy with `_h_matrix_pseudoinverse()` = `np.linalg.inv`
  | rotation          -- `Rotation(np.linalg.inv(self.rotation_matrix))`
  | nonUniformScale   -- `NonUniformScale(1.0 / self.scale)`
  | uniformScale      -- `UniformScale(1.0 / self.scale, n_dims)`
  | translation       -- `Translation(-self.translation_component)`
  | unknown
deriving Repr, DecidableEq

/-- what the constructor of a class guarantees about its matrix -/
inductive MatKind | general | rotation | nonUniformScale | uniformScale | translation | unknown
deriving Repr, DecidableEq

def pinvBy : PinvProvider → Aff2 → Aff2
  | .homogeneous, m => m.inv
  | .alignment, m => m.inv
  | .rotation, m =>
    let dt := m.a * m.d - m.b * m.c
    ⟨m.d / dt, -m.b / dt, 0, -m.c / dt, m.a / dt, 0⟩
  | .nonUniformScale, m => ⟨1 / m.a, 0, 0, 0, 1 / m.d, 0⟩
  | .uniformScale, m => ⟨1 / m.a, 0, 0, 0, 1 / m.a, 0⟩
  | .translation, m => ⟨1, 0, -m.tx, 0, 1, -m.ty⟩
  | .unknown, m => m

def MatKind.holds : MatKind → Aff2 → Prop
  | .general, m => m.det ≠ 0
  | .rotation, m => m.tx = 0 ∧ m.ty = 0 ∧ m.det ≠ 0
  | .nonUniformScale, m => m.b = 0 ∧ m.c = 0 ∧ m.tx = 0 ∧ m.ty = 0 ∧ m.a ≠ 0 ∧ m.d ≠ 0
  | .uniformScale, m => m.b = 0 ∧ m.c = 0 ∧ m.tx = 0 ∧ m.ty = 0 ∧ m.a ≠ 0 ∧ m.d = m.a
  | .translation, m => m.a = 1 ∧ m.b = 0 ∧ m.c = 0 ∧ m.d = 1
  | .unknown, _ => False

/-- for which kinds of matrix a supplier's closed form is the inverse -/
def providerOK : MatKind → PinvProvider → Bool
  | .unknown, _ => false
  | _, .unknown => false
  | _, .homogeneous => true
  | _, .alignment => true
  | .rotation, .rotation => true
  | .nonUniformScale, .nonUniformScale => true
  | .uniformScale, .uniformScale => true
  | .uniformScale, .nonUniformScale => true
  | .translation, .translation => true
  | _, _ => false

/-- one row of the regenerated family table: class name, matrix kind by ancestry, supplier of `pseudoinverse`,
and whether `_h_matrix_pseudoinverse` is still `Homogeneous`'s `np.linalg.inv` -/
structure FamilyRow where
  name : String
  kind : MatKind
  provider : PinvProvider
  hInvIsHomogeneous : Bool
deriving Repr, DecidableEq

def FamilyRow.ok (r : FamilyRow) : Bool := providerOK r.kind r.provider && r.hInvIsHomogeneous

def expectedFamily : List FamilyRow := [
  ⟨"Affine", .general, .homogeneous, true⟩,
  ⟨"AlignmentAffine", .general, .alignment, true⟩,
  ⟨"AlignmentRotation", .rotation, .alignment, true⟩,
  ⟨"AlignmentSimilarity", .general, .alignment, true⟩,
  ⟨"AlignmentTranslation", .translation, .alignment, true⟩,
  ⟨"AlignmentUniformScale", .uniformScale, .alignment, true⟩,
  ⟨"Homogeneous", .general, .homogeneous, true⟩,
  ⟨"NonUniformScale", .nonUniformScale, .nonUniformScale, true⟩,
  ⟨"Rotation", .rotation, .rotation, true⟩,
  ⟨"Similarity", .general, .homogeneous, true⟩,
  ⟨"Translation", .translation, .translation, true⟩,
  ⟨"UniformScale", .uniformScale, .uniformScale, true⟩ ]

/-! ## 6. sequences of operations -/

/-- one step of a sequence: the plan is built from the current shape -/
abbrev OpF := Nat → Nat → Except Err Plan2

structure ChainState where
  im : Img2
  msk : Img2
  lms : List V2
  /-- composition of the returned transforms so far: final coordinates → coordinates of the first image -/
  back : Aff2

/-- apply a list of operations one after the other, each to the result of the previous one -/
def chainRun (o : Interp) : List OpF → ChainState → Except Err ChainState
  | [], s => .ok s
  | f :: fs, s =>
    match f s.im.h s.im.w with
    | .error e => .error e
    | .ok p => chainRun o fs ⟨p.run o s.im, p.runMask s.msk, s.lms.map p.landmark, s.back.comp p.T⟩

/-- the plans a successful run used, in order (for statements about every step) -/
def chainPlans (o : Interp) : List OpF → ChainState → List Plan2
  | [], _ => []
  | f :: fs, s =>
    match f s.im.h s.im.w with
    | .error _ => []
    | .ok p => p :: chainPlans o fs ⟨p.run o s.im, p.runMask s.msk, s.lms.map p.landmark, s.back.comp p.T⟩

/-! ## 7. what each operation hands to the funnel -/

/-- the arguments of the single `warp_to_shape` call an operation makes, as far as they are fixed by the
operation: is the caller's `order` forwarded or replaced, is the caller's `mode`/`cval` forwarded or replaced -/
inductive OrderArg | forwarded | forced0 | forced1
deriving Repr, DecidableEq
inductive ModeArg | forwarded | nearest | constant0
deriving Repr, DecidableEq

structure FunnelRow where
  op : String
  /-- number of `warp_to_shape` calls on the image itself (one: the funnel is single) -/
  calls : Nat
  order : OrderArg
  mode : ModeArg
  /-- landmarks are warped (`warp_landmarks=True` reaches the funnel) -/
  landmarks : Bool
deriving Repr, DecidableEq

def Plan2.orderArg (p : Plan2) : OrderArg :=
  match p.order with
  | none => .forwarded
  | some .nearest => .forced0
  | some .linear => .forced1

/-- the mode of a plan built with the caller's mode `m` -/
def modeArgOf (caller : Mode) (p : Plan2) : ModeArg :=
  if p.mode = caller then .forwarded else if p.mode = .nearest then .nearest else .constant0

/-- the caller's mode used when the table is probed (`mode='constant', cval=3`) -/
def probeMode : Mode := .constant 3

/-- probe plans: the same calls the harness makes on the live classes (an 8×9 image) -/
def probePlans : List (String × Except Err Plan2) := [
  ("crop", cropPlan2 8 9 ⟨1, 2⟩ ⟨5, 6⟩ false),
  ("crop_to_pointcloud", cropToPointsPlan2 8 9 [⟨1, 2⟩, ⟨5, 6⟩] 0 true),
  ("crop_to_landmarks", cropToPointsPlan2 8 9 [⟨1, 2⟩, ⟨5, 6⟩] 0 true),
  ("crop_to_pointcloud_proportion", cropToPointsProportionPlan2 8 9 [⟨1, 2⟩, ⟨5, 6⟩] (1/4) true true),
  ("crop_to_landmarks_proportion", cropToPointsProportionPlan2 8 9 [⟨1, 2⟩, ⟨5, 6⟩] (1/4) true true),
  ("crop_to_true_mask", cropToTrueMaskPlan2 ⟨8, 9, fun i j => if 1 ≤ i ∧ i ≤ 5 ∧ 2 ≤ j ∧ j ≤ 6 then 1 else 0⟩ 0 true),
  ("rescale", rescalePlan2 8 9 (3/2) (3/2) .ceil),
  ("rescale_to_diagonal", rescaleToDiagonalPlan2 8 9 18 12 .ceil),
  ("rescale_to_pointcloud", rescaleToPointcloudPlan2 8 9 2 3 .ceil),
  ("rescale_landmarks_to_diagonal_range", rescaleLandmarksToDiagonalRangePlan2 8 9 9 6 .ceil),
  ("resize", resizePlan2 8 9 12 7),
  ("zoom", zoomPlan2 8 9 (3/2)),
  ("rotate_ccw_about_centre", rotatePlan2 8 9 (3/5) (4/5) false probeMode .round),
  ("transform_about_centre", aboutPlan2 8 9 ⟨1, 1/2, 0, 0, 1, 0⟩ false probeMode .round),
  ("mirror", mirrorPlan2 8 9 1),
  ("pyramid", pyramidStep2 8 9 2) ]

def funnelRowOf (name : String) (p : Except Err Plan2) : FunnelRow :=
  match p with
  | .error _ => ⟨name, 0, .forwarded, .forwarded, false⟩
  | .ok p => ⟨name, 1, p.orderArg, modeArgOf probeMode p, true⟩

/-- the table the model predicts; `GenProps/C01.lean` obliges the table recorded from the live code to equal it -/
def expectedFunnel : List FunnelRow := probePlans.map fun (n, p) => funnelRowOf n p

/-- image-class method resolution: which class supplies each of the funnel methods -/
structure DispatchRow where
  cls : String
  method : String
  supplier : String
deriving Repr, DecidableEq

def expectedDispatch : List DispatchRow :=
  let inherited := ["_build_warp_to_shape", "crop", "crop_to_pointcloud", "crop_to_landmarks",
    "crop_to_pointcloud_proportion", "crop_to_landmarks_proportion", "rescale", "rescale_to_diagonal",
    "rescale_to_pointcloud", "rescale_landmarks_to_diagonal_range", "resize", "zoom", "rotate_ccw_about_centre",
    "transform_about_centre", "mirror", "pyramid", "gaussian_pyramid", "constrain_points_to_bounds",
    "constrain_landmarks_to_bounds"]
  let own (c : String) := ["warp_to_shape", "warp_to_mask", "sample"].map fun m => DispatchRow.mk c m c
  -- defaults of the two funnel entry points: warp_landmarks, order, mode, cval (`-` = no such parameter)
  let defaults (c : String) (ws wm : List String) :=
    (["warp_landmarks", "order", "mode", "cval"].zip ws).map (fun (k, v) => DispatchRow.mk c ("warp_to_shape." ++ k) v)
    ++ (["warp_landmarks", "order", "mode", "cval"].zip wm).map (fun (k, v) => DispatchRow.mk c ("warp_to_mask." ++ k) v)
  (own "Image" ++ [⟨"Image", "_build_warp_to_mask", "Image"⟩, ⟨"Image", "crop_to_true_mask", "-"⟩]
      ++ inherited.map (fun m => ⟨"Image", m, "Image"⟩)
      ++ defaults "Image" ["True", "1", "constant", "0.0"] ["True", "1", "constant", "0.0"])
  ++ (own "MaskedImage" ++ [⟨"MaskedImage", "_build_warp_to_mask", "Image"⟩,
        ⟨"MaskedImage", "crop_to_true_mask", "MaskedImage"⟩] ++ inherited.map (fun m => ⟨"MaskedImage", m, "Image"⟩)
      ++ defaults "MaskedImage" ["False", "1", "constant", "0.0"] ["False", "1", "constant", "0.0"])
  ++ (own "BooleanImage" ++ [⟨"BooleanImage", "_build_warp_to_mask", "BooleanImage"⟩,
        ⟨"BooleanImage", "crop_to_true_mask", "-"⟩] ++ inherited.map (fun m => ⟨"BooleanImage", m, "Image"⟩)
      ++ defaults "BooleanImage" ["True", "None", "constant", "False"] ["True", "-", "constant", "False"])

end MenpoModel.C01
