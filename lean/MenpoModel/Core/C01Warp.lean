/-
C01 — image geometry operations (menpo/image/base.py, masked.py, boolean.py, interpolation.py).

Executable model, core Lean only (no Mathlib).  Scalars are `Rat`.

Every operation of the property funnels into one place of the code:

    build a template→source transform `T`;  warped.pixels[p] = sample(self, T p)  for every template
    index p  (`Image.warp_to_shape` → `scipy_interpolation` → `scipy.ndimage.map_coordinates`);
    warped.landmarks = T.pseudoinverse() (self.landmarks)        (`Image._build_warp_to_shape`)

The model therefore has three layers:
  1. `axis1 / Img2.core / Img2.sample` – `map_coordinates` for order 0 and 1 and the boundary modes
     `constant` (a point with a coordinate outside `[0, n-1]` gives `cval`) and `nearest` (coordinates are
     clamped to `[0, n-1]`), as a tensor product of the one–axis rule;  (cv2 is absent: this is the only path)
  2. `warp2 / warp3` – the funnel;  `Plan2.run / runMask / landmark`;
  3. one *plan* per public operation, transcribed branch for branch: template shape, `T`, forced order, mode.

An image is a shape and a total function on integer grid points; the samplers read it only at indices
clamped into the shape, so the extension outside the shape is irrelevant (the driver instantiates it with a
finite table).  Channels are independent in the code (`for i in range(pixels.shape[0])`), so an image here is
one channel.  `Homogeneous.pseudoinverse()` of the affine family is modelled by the exact inverse
(closed forms / `np.linalg.inv`: contract, property C04).
-/

namespace MenpoModel.C01

/-! ## 2-D vectors and affine maps (`h_matrix` rows: `x' = a x + b y + tx`, `y' = c x + d y + ty`; axis 0 = x) -/

@[ext] structure V2 where
  x : Rat
  y : Rat
deriving Repr, DecidableEq

@[ext] structure Aff2 where
  a : Rat
  b : Rat
  tx : Rat
  c : Rat
  d : Rat
  ty : Rat
deriving Repr, DecidableEq

def V2.neg (p : V2) : V2 := ⟨-p.x, -p.y⟩
def Aff2.apply (m : Aff2) (p : V2) : V2 := ⟨m.a * p.x + m.b * p.y + m.tx, m.c * p.x + m.d * p.y + m.ty⟩
/-- `g.comp f` = first `f` then `g` (`f.compose_before(g)`, matrix product `G·F`) -/
def Aff2.comp (g f : Aff2) : Aff2 :=
  ⟨g.a * f.a + g.b * f.c, g.a * f.b + g.b * f.d, g.a * f.tx + g.b * f.ty + g.tx,
   g.c * f.a + g.d * f.c, g.c * f.b + g.d * f.d, g.c * f.tx + g.d * f.ty + g.ty⟩
def Aff2.det (m : Aff2) : Rat := m.a * m.d - m.b * m.c
def Aff2.one : Aff2 := ⟨1, 0, 0, 0, 1, 0⟩
def transl2 (t : V2) : Aff2 := ⟨1, 0, t.x, 0, 1, t.y⟩
def scale2 (kx ky : Rat) : Aff2 := ⟨kx, 0, 0, 0, ky, 0⟩
def rot2 (c s : Rat) : Aff2 := ⟨c, -s, 0, s, c, 0⟩
/-- `pseudoinverse()` of an invertible member of the affine family: the exact inverse -/
def Aff2.inv (m : Aff2) : Aff2 :=
  let dt := m.det
  let a := m.d / dt; let b := -m.b / dt; let c := -m.c / dt; let d := m.a / dt
  ⟨a, b, -(a * m.tx + b * m.ty), c, d, -(c * m.tx + d * m.ty)⟩
/-- `transform_about_centre`: `to_origin.compose_before(t).compose_before(back_to_centre)` -/
def aboutCentre2 (ctr : V2) (t : Aff2) : Aff2 := (transl2 ctr).comp (t.comp (transl2 ctr.neg))

/-! ## 3-D -/

@[ext] structure V3 where
  x : Rat
  y : Rat
  z : Rat
deriving Repr, DecidableEq

@[ext] structure Aff3 where
  a00 : Rat
  a01 : Rat
  a02 : Rat
  t0 : Rat
  a10 : Rat
  a11 : Rat
  a12 : Rat
  t1 : Rat
  a20 : Rat
  a21 : Rat
  a22 : Rat
  t2 : Rat
deriving Repr, DecidableEq

def V3.neg (p : V3) : V3 := ⟨-p.x, -p.y, -p.z⟩
def Aff3.apply (m : Aff3) (p : V3) : V3 :=
  ⟨m.a00 * p.x + m.a01 * p.y + m.a02 * p.z + m.t0,
   m.a10 * p.x + m.a11 * p.y + m.a12 * p.z + m.t1,
   m.a20 * p.x + m.a21 * p.y + m.a22 * p.z + m.t2⟩
def Aff3.comp (g f : Aff3) : Aff3 :=
  ⟨g.a00 * f.a00 + g.a01 * f.a10 + g.a02 * f.a20, g.a00 * f.a01 + g.a01 * f.a11 + g.a02 * f.a21,
   g.a00 * f.a02 + g.a01 * f.a12 + g.a02 * f.a22, g.a00 * f.t0 + g.a01 * f.t1 + g.a02 * f.t2 + g.t0,
   g.a10 * f.a00 + g.a11 * f.a10 + g.a12 * f.a20, g.a10 * f.a01 + g.a11 * f.a11 + g.a12 * f.a21,
   g.a10 * f.a02 + g.a11 * f.a12 + g.a12 * f.a22, g.a10 * f.t0 + g.a11 * f.t1 + g.a12 * f.t2 + g.t1,
   g.a20 * f.a00 + g.a21 * f.a10 + g.a22 * f.a20, g.a20 * f.a01 + g.a21 * f.a11 + g.a22 * f.a21,
   g.a20 * f.a02 + g.a21 * f.a12 + g.a22 * f.a22, g.a20 * f.t0 + g.a21 * f.t1 + g.a22 * f.t2 + g.t2⟩
def Aff3.det (m : Aff3) : Rat :=
  m.a00 * (m.a11 * m.a22 - m.a12 * m.a21) - m.a01 * (m.a10 * m.a22 - m.a12 * m.a20)
    + m.a02 * (m.a10 * m.a21 - m.a11 * m.a20)
def transl3 (t : V3) : Aff3 := ⟨1, 0, 0, t.x, 0, 1, 0, t.y, 0, 0, 1, t.z⟩
def scale3 (kx ky kz : Rat) : Aff3 := ⟨kx, 0, 0, 0, 0, ky, 0, 0, 0, 0, kz, 0⟩
/-- exact inverse (adjugate / determinant) -/
def Aff3.inv (m : Aff3) : Aff3 :=
  let dt := m.det
  let b00 := (m.a11 * m.a22 - m.a12 * m.a21) / dt
  let b01 := (m.a02 * m.a21 - m.a01 * m.a22) / dt
  let b02 := (m.a01 * m.a12 - m.a02 * m.a11) / dt
  let b10 := (m.a12 * m.a20 - m.a10 * m.a22) / dt
  let b11 := (m.a00 * m.a22 - m.a02 * m.a20) / dt
  let b12 := (m.a02 * m.a10 - m.a00 * m.a12) / dt
  let b20 := (m.a10 * m.a21 - m.a11 * m.a20) / dt
  let b21 := (m.a01 * m.a20 - m.a00 * m.a21) / dt
  let b22 := (m.a00 * m.a11 - m.a01 * m.a10) / dt
  ⟨b00, b01, b02, -(b00 * m.t0 + b01 * m.t1 + b02 * m.t2),
   b10, b11, b12, -(b10 * m.t0 + b11 * m.t1 + b12 * m.t2),
   b20, b21, b22, -(b20 * m.t0 + b21 * m.t1 + b22 * m.t2)⟩
def aboutCentre3 (ctr : V3) (t : Aff3) : Aff3 := (transl3 ctr).comp (t.comp (transl3 ctr.neg))

/-! ## `map_coordinates`, orders 0 and 1, modes `constant` and `nearest` -/

inductive Interp | nearest | linear
deriving Repr, DecidableEq

inductive Mode
  | constant (cval : Rat)
  | nearest
deriving Repr, DecidableEq

/-- largest valid index of an axis of extent `n`, as a rational -/
def top (n : Nat) : Rat := (((n : Int) - 1 : Int) : Rat)

/-- `0 ≤ x ≤ n-1` : the coordinate is inside the axis (mode `constant` answers `cval` otherwise) -/
def inR (n : Nat) (x : Rat) : Prop := 0 ≤ x ∧ x ≤ top n
instance (n : Nat) (x : Rat) : Decidable (inR n x) := by unfold inR; infer_instance

/-- mode `nearest`: the coordinate is clamped to `[0, n-1]` -/
def clampR (n : Nat) (x : Rat) : Rat := if x < 0 then 0 else if top n < x then top n else x
/-- index clamp (reads never leave the table) -/
def clampI (n : Nat) (i : Int) : Int := if i < 0 then 0 else if (n : Int) - 1 < i then (n : Int) - 1 else i

/-- one axis of `map_coordinates`: order 0 rounds half up (`floor(x + 1/2)`), order 1 interpolates between
`floor x` and `floor x + 1` with weights `1 - t`, `t` -/
def axis1 (o : Interp) (n : Nat) (f : Int → Rat) (x : Rat) : Rat :=
  let x' := clampR n x
  match o with
  | .nearest => f (clampI n (x' + 1 / 2).floor)
  | .linear =>
    let i := x'.floor
    let t := x' - (i : Rat)
    (1 - t) * f (clampI n i) + t * f (clampI n (i + 1))

/-- one channel of a 2-D image -/
structure Img2 where
  h : Nat
  w : Nat
  px : Int → Int → Rat

def Img2.core (o : Interp) (im : Img2) (p : V2) : Rat :=
  axis1 o im.h (fun i => axis1 o im.w (fun j => im.px i j) p.y) p.x

def Img2.inside (im : Img2) (p : V2) : Prop := inR im.h p.x ∧ inR im.w p.y
instance (im : Img2) (p : V2) : Decidable (im.inside p) := by unfold Img2.inside; infer_instance

/-- `Image.sample(points, order, mode, cval)` for one point and one channel -/
def Img2.sample (o : Interp) (m : Mode) (im : Img2) (p : V2) : Rat :=
  match m with
  | .nearest => im.core o p
  | .constant cv => if im.inside p then im.core o p else cv

def gridPt2 (i j : Int) : V2 := ⟨(i : Rat), (j : Rat)⟩

/-- `Image.warp_to_shape(template_shape, T, order, mode, cval)` for an arbitrary transform `T` (any object with
`apply`: affine, piecewise affine, thin plate spline): pixel `p` of the result is the source sampled at `T p` -/
def warpF2 (o : Interp) (m : Mode) (im : Img2) (h w : Nat) (T : V2 → V2) : Img2 :=
  ⟨h, w, fun i j => im.sample o m (T (gridPt2 i j))⟩

/-- the affine case: what every resampling operation of `Image` hands to the funnel -/
def warp2 (o : Interp) (m : Mode) (im : Img2) (h w : Nat) (T : Aff2) : Img2 := warpF2 o m im h w T.apply

/-- `Image.warp_to_mask(template_mask, T, …)`: only the `True` pixels of the template are sampled, the
others stay at the blank fill `0` -/
def warpToMaskF2 (o : Interp) (m : Mode) (im : Img2) (tmpl : Img2) (T : V2 → V2) : Img2 :=
  ⟨tmpl.h, tmpl.w, fun i j => if tmpl.px i j = 0 then 0 else im.sample o m (T (gridPt2 i j))⟩
def warpToMask2 (o : Interp) (m : Mode) (im : Img2) (tmpl : Img2) (T : Aff2) : Img2 :=
  warpToMaskF2 o m im tmpl T.apply

structure Img3 where
  n0 : Nat
  n1 : Nat
  n2 : Nat
  px : Int → Int → Int → Rat

def Img3.core (o : Interp) (im : Img3) (p : V3) : Rat :=
  axis1 o im.n0 (fun i => axis1 o im.n1 (fun j => axis1 o im.n2 (fun k => im.px i j k) p.z) p.y) p.x
def Img3.inside (im : Img3) (p : V3) : Prop := inR im.n0 p.x ∧ inR im.n1 p.y ∧ inR im.n2 p.z
instance (im : Img3) (p : V3) : Decidable (im.inside p) := by unfold Img3.inside; infer_instance
def Img3.sample (o : Interp) (m : Mode) (im : Img3) (p : V3) : Rat :=
  match m with
  | .nearest => im.core o p
  | .constant cv => if im.inside p then im.core o p else cv
def gridPt3 (i j k : Int) : V3 := ⟨(i : Rat), (j : Rat), (k : Rat)⟩
def warpF3 (o : Interp) (m : Mode) (im : Img3) (n0 n1 n2 : Nat) (T : V3 → V3) : Img3 :=
  ⟨n0, n1, n2, fun i j k => im.sample o m (T (gridPt3 i j k))⟩
def warp3 (o : Interp) (m : Mode) (im : Img3) (n0 n1 n2 : Nat) (T : Aff3) : Img3 := warpF3 o m im n0 n1 n2 T.apply

/-! ## plans: what each public operation hands to `warp_to_shape` -/

inductive Err
  | value        -- ValueError / ZeroDivisionError raised by the operation
  | boundary     -- ImageBoundaryError
  | degenerate   -- outside the modelled domain (an extent of one pixel, a zero index-space factor, singular map)
deriving Repr, DecidableEq

inductive Rounding | ceil | floor | round
deriving Repr, DecidableEq

/-- `np.round`: half to even -/
def roundHalfEven (x : Rat) : Int :=
  let f := x.floor
  let r := x - (f : Rat)
  if r < 1 / 2 then f else if 1 / 2 < r then f + 1 else if f % 2 = 0 then f else f + 1

/-- `round_image_shape` on one extent -/
def Rounding.apply : Rounding → Rat → Int
  | .ceil, x => x.ceil
  | .floor, x => x.floor
  | .round, x => roundHalfEven x

structure Plan2 where
  h : Nat
  w : Nat
  /-- template → source; this is also the transform returned with `return_transform=True` -/
  T : Aff2
  mode : Mode
  /-- order forced by the operation (`crop` passes `order=0`) -/
  order : Option Interp
  /-- the exact extents before rounding (diagnostic: the harness excludes near-ties of the rounding) -/
  pre : V2
deriving Repr

/-- pixels of the result (`Image.warp_to_shape`) -/
def Plan2.run (p : Plan2) (o : Interp) (im : Img2) : Img2 := warp2 (p.order.getD o) p.mode im p.h p.w p.T
/-- the boolean output array casts `cval` (a C cast through an 8-bit integer): for `|cval| < 256`, the range the model
claims and the harness uses, anything of magnitude ≥ 1 is `True`; multiples of 256 (256.0, 512.0, 1e10 …) wrap to `False`
in scipy and are OUTSIDE this definition (contract parameter, listed in INFO) -/
def maskMode : Mode → Mode
  | .nearest => .nearest
  | .constant cv => .constant (if cv ≤ -1 ∨ 1 ≤ cv then 1 else 0)
/-- mask of the result (`MaskedImage.warp_to_shape`: `self.mask.warp_to_shape(template_shape, transform,
mode, cval)`), also the pixels of a warped `BooleanImage`: the *same* `T`, order 0 -/
def Plan2.runMask (p : Plan2) (mk : Img2) : Img2 := warp2 .nearest (maskMode p.mode) mk p.h p.w p.T
/-- landmarks of the result: `transform.pseudoinverse()._apply_inplace(landmarks)` -/
def Plan2.landmark (p : Plan2) (l : V2) : V2 := p.T.inv.apply l

/-- index-space factor of `Image.rescale`: `(scale * len - 1) / (len - 1)` -/
def scaleFactor (len : Nat) (s : Rat) : Rat := (s * (len : Rat) - 1) / ((len : Rat) - 1)

/-- `Image.rescale(scale, round, order)` -/
def rescalePlan2 (h w : Nat) (sx sy : Rat) (r : Rounding) : Except Err Plan2 :=
  if sx ≤ 0 ∨ sy ≤ 0 then .error .value
  else
    let fx := scaleFactor h sx
    let fy := scaleFactor w sy
    if h < 2 ∨ w < 2 ∨ fx = 0 ∨ fy = 0 then .error .degenerate
    else .ok ⟨(r.apply (sx * h)).toNat, (r.apply (sy * w)).toNat, scale2 (1 / fx) (1 / fy), .nearest, none,
              ⟨sx * h, sy * w⟩⟩

/-- `Image.resize(shape, order)`: `rescale(shape / self.shape, round='round')` -/
def resizePlan2 (h w : Nat) (nh nw : Rat) : Except Err Plan2 :=
  if h = 0 ∨ w = 0 then .error .degenerate else rescalePlan2 h w (nh / h) (nw / w) .round

/-- `Image.constrain_points_to_bounds` on one coordinate -/
def constrainPt (n : Nat) (p : Rat) : Rat := if p < 0 then 0 else if (n : Rat) - p < 0 then (n : Rat) else p

/-- `Image.crop(min_indices, max_indices, constrain_to_boundary)`.  The raise-or-clip decision is C13's
subject (repaired in /repo by `fix: Image.crop silently clipped …`: both corners must be unconstrained);
the C01 correspondence only uses requests on which the old and the repaired decision agree -/
def cropPlan2 (h w : Nat) (mn mx : V2) (constrain : Bool) : Except Err Plan2 :=
  let mnx : Rat := (mn.x.floor : Rat); let mny : Rat := (mn.y.floor : Rat)
  let mxx : Rat := (mx.x.ceil : Rat); let mxy : Rat := (mx.y.ceil : Rat)
  if ¬ (mnx < mxx ∧ mny < mxy) then .error .value
  else
    let bx := constrainPt h mnx; let by' := constrainPt w mny
    let Bx := constrainPt h mxx; let By := constrainPt w mxy
    let allMinBounded := bx = mnx ∧ by' = mny
    let allMaxBounded := Bx = mxx ∧ By = mxy
    if ¬ (constrain ∨ (allMinBounded ∧ allMaxBounded)) then .error .boundary
    else .ok ⟨(Bx - bx).floor.toNat, (By - by').floor.toNat, transl2 ⟨bx, by'⟩, .constant 0, some .nearest,
              ⟨Bx - bx, By - by'⟩⟩

def minL : List Rat → Rat
  | [] => 0
  | a :: l => l.foldl (fun m x => if x < m then x else m) a
def maxL : List Rat → Rat
  | [] => 0
  | a :: l => l.foldl (fun m x => if m < x then x else m) a

/-- `PointCloud.bounds(boundary)`: per-axis `(min − boundary, max + boundary)` -/
def boundsOf (pts : List V2) (boundary : Rat) : V2 × V2 :=
  (⟨minL (pts.map (·.x)) - boundary, minL (pts.map (·.y)) - boundary⟩,
   ⟨maxL (pts.map (·.x)) + boundary, maxL (pts.map (·.y)) + boundary⟩)

/-- `crop_to_pointcloud` / `crop_to_landmarks` / `crop_to_true_mask` (the point set is the landmark group, the
given cloud, or the `True` indices of the mask) -/
def cropToPointsPlan2 (h w : Nat) (pts : List V2) (boundary : Rat) (constrain : Bool) : Except Err Plan2 :=
  let b := boundsOf pts boundary
  cropPlan2 h w b.1 b.2 constrain

/-- `crop_to_pointcloud_proportion`: boundary = proportion × min (or max) of the per-axis range -/
def cropToPointsProportionPlan2 (h w : Nat) (pts : List V2) (prop : Rat) (minimum : Bool) (constrain : Bool) :
    Except Err Plan2 :=
  let b := boundsOf pts 0
  let rx := b.2.x - b.1.x; let ry := b.2.y - b.1.y
  let rg := if minimum then (if ry < rx then ry else rx) else (if rx < ry then ry else rx)
  cropToPointsPlan2 h w pts (prop * rg) constrain

/-- `Image.centre()` = shape / 2 -/
def centre2 (h w : Nat) : V2 := ⟨(h : Rat) / 2, (w : Rat) / 2⟩

/-- `Image.zoom(scale, order)`: `T = scale_about_centre(self, 1/scale)` used directly as template→source -/
def zoomPlan2 (h w : Nat) (s : Rat) : Except Err Plan2 :=
  if s = 0 then .error .value
  else .ok ⟨h, w, aboutCentre2 (centre2 h w) (scale2 (1 / s) (1 / s)), .nearest, none, ⟨h, w⟩⟩

def min4 (a b c d : Rat) : Rat := minL [a, b, c, d]
def max4 (a b c d : Rat) : Rat := maxL [a, b, c, d]

/-- the source→template map of `Image.transform_about_centre(A, retain_shape=False)`:
translate the centre to the origin, apply `A`, translate the minimum of the transformed corner box to 0 -/
def aboutForward2 (h w : Nat) (A : Aff2) : Aff2 × V2 :=
  let trans := A.comp (transl2 (centre2 h w).neg)
  let c0 := trans.apply ⟨0, 0⟩
  let c1 := trans.apply ⟨top h, 0⟩
  let c2 := trans.apply ⟨top h, top w⟩
  let c3 := trans.apply ⟨0, top w⟩
  let mnx := min4 c0.x c1.x c2.x c3.x; let mxx := max4 c0.x c1.x c2.x c3.x
  let mny := min4 c0.y c1.y c2.y c3.y; let mxy := max4 c0.y c1.y c2.y c3.y
  ((transl2 ⟨-mnx, -mny⟩).comp trans, ⟨mxx - mnx + 1, mxy - mny + 1⟩)

/-- `Image.transform_about_centre(A, retain_shape, mode, cval, round, order)` -/
def aboutPlan2 (h w : Nat) (A : Aff2) (retain : Bool) (m : Mode) (r : Rounding) : Except Err Plan2 :=
  if A.det = 0 then .error .degenerate
  else if retain then .ok ⟨h, w, (aboutCentre2 (centre2 h w) A).inv, m, none, ⟨h, w⟩⟩
  else
    let fr := aboutForward2 h w A
    .ok ⟨(r.apply fr.2.x).toNat, (r.apply fr.2.y).toNat, fr.1.inv, m, none, fr.2⟩

/-- `Image.rotate_ccw_about_centre(theta, …)` with `(c, s) = (cos θ, sin θ)` (contract parameters) -/
def rotatePlan2 (h w : Nat) (c s : Rat) (retain : Bool) (m : Mode) (r : Rounding) : Except Err Plan2 :=
  aboutPlan2 h w (rot2 c s) retain m r

/-- the flip-and-translate-back map of `Image.mirror(axis)` -/
def mirrorMap2 (h w : Nat) (axis : Nat) : Aff2 :=
  if axis = 0 then ⟨-1, 0, top h, 0, 1, 0⟩ else ⟨1, 0, 0, 0, -1, top w⟩

/-- `Image.mirror(axis, order)` -/
def mirrorPlan2 (h w : Nat) (axis : Nat) : Except Err Plan2 :=
  if 2 ≤ axis then .error .value
  else .ok ⟨h, w, (mirrorMap2 h w axis).inv, .nearest, none, ⟨h, w⟩⟩

/-- a direct `warp_to_shape(shape, T, mode, cval)` call with an affine `T` -/
def warpPlan2 (h w : Nat) (T : Aff2) (m : Mode) : Except Err Plan2 :=
  if T.det = 0 then .error .degenerate else .ok ⟨h, w, T, m, none, ⟨h, w⟩⟩

/-- an operation that does not forward the caller's order: the default of the callee is used -/
def Plan2.withOrder (p : Plan2) (o : Interp) : Plan2 := { p with order := some o }

/-- one level step of `Image.pyramid(n_levels, downscale)`: `image.rescale(1.0 / downscale)` — `pyramid` has no
`order` parameter, so every level is resampled with `rescale`'s default order 1 -/
def pyramidStep2 (h w : Nat) (downscale : Rat) : Except Err Plan2 :=
  if downscale = 0 then .error .value
  else match rescalePlan2 h w (1 / downscale) (1 / downscale) .ceil with
    | .error e => .error e
    | .ok p => .ok (p.withOrder .linear)

/-- image, mask and landmarks of level `k` of the pyramid (level 0 = the image itself) -/
def pyramid2 (downscale : Rat) (o : Interp) : Nat → Img2 × Img2 × List V2 → Except Err (Img2 × Img2 × List V2)
  | 0, s => .ok s
  | k + 1, s =>
    match pyramid2 downscale o k s with
    | .error e => .error e
    | .ok (im, mk, lms) =>
      match pyramidStep2 im.h im.w downscale with
      | .error e => .error e
      | .ok p => .ok (p.run o im, p.runMask mk, lms.map p.landmark)

/-! ### 3-D plans (the n-D operations: crop, rescale, resize, zoom, mirror, warp_to_shape) -/

structure Plan3 where
  n0 : Nat
  n1 : Nat
  n2 : Nat
  T : Aff3
  mode : Mode
  order : Option Interp
  pre : V3
deriving Repr

def Plan3.run (p : Plan3) (o : Interp) (im : Img3) : Img3 := warp3 (p.order.getD o) p.mode im p.n0 p.n1 p.n2 p.T
def Plan3.runMask (p : Plan3) (mk : Img3) : Img3 := warp3 .nearest (maskMode p.mode) mk p.n0 p.n1 p.n2 p.T
def Plan3.landmark (p : Plan3) (l : V3) : V3 := p.T.inv.apply l

def rescalePlan3 (n0 n1 n2 : Nat) (s : V3) (r : Rounding) : Except Err Plan3 :=
  if s.x ≤ 0 ∨ s.y ≤ 0 ∨ s.z ≤ 0 then .error .value
  else
    let f0 := scaleFactor n0 s.x; let f1 := scaleFactor n1 s.y; let f2 := scaleFactor n2 s.z
    if n0 < 2 ∨ n1 < 2 ∨ n2 < 2 ∨ f0 = 0 ∨ f1 = 0 ∨ f2 = 0 then .error .degenerate
    else .ok ⟨(r.apply (s.x * n0)).toNat, (r.apply (s.y * n1)).toNat, (r.apply (s.z * n2)).toNat,
              scale3 (1 / f0) (1 / f1) (1 / f2), .nearest, none, ⟨s.x * n0, s.y * n1, s.z * n2⟩⟩

def resizePlan3 (n0 n1 n2 : Nat) (m : V3) : Except Err Plan3 :=
  if n0 = 0 ∨ n1 = 0 ∨ n2 = 0 then .error .degenerate
  else rescalePlan3 n0 n1 n2 ⟨m.x / n0, m.y / n1, m.z / n2⟩ .round

def cropPlan3 (n0 n1 n2 : Nat) (mn mx : V3) (constrain : Bool) : Except Err Plan3 :=
  let a0 : Rat := (mn.x.floor : Rat); let a1 : Rat := (mn.y.floor : Rat); let a2 : Rat := (mn.z.floor : Rat)
  let b0 : Rat := (mx.x.ceil : Rat); let b1 : Rat := (mx.y.ceil : Rat); let b2 : Rat := (mx.z.ceil : Rat)
  if ¬ (a0 < b0 ∧ a1 < b1 ∧ a2 < b2) then .error .value
  else
    let l0 := constrainPt n0 a0; let l1 := constrainPt n1 a1; let l2 := constrainPt n2 a2
    let u0 := constrainPt n0 b0; let u1 := constrainPt n1 b1; let u2 := constrainPt n2 b2
    let allMinBounded := l0 = a0 ∧ l1 = a1 ∧ l2 = a2
    let allMaxBounded := u0 = b0 ∧ u1 = b1 ∧ u2 = b2
    if ¬ (constrain ∨ (allMinBounded ∧ allMaxBounded)) then .error .boundary
    else .ok ⟨(u0 - l0).floor.toNat, (u1 - l1).floor.toNat, (u2 - l2).floor.toNat, transl3 ⟨l0, l1, l2⟩,
              .constant 0, some .nearest, ⟨u0 - l0, u1 - l1, u2 - l2⟩⟩

def centre3 (n0 n1 n2 : Nat) : V3 := ⟨(n0 : Rat) / 2, (n1 : Rat) / 2, (n2 : Rat) / 2⟩

def zoomPlan3 (n0 n1 n2 : Nat) (s : Rat) : Except Err Plan3 :=
  if s = 0 then .error .value
  else .ok ⟨n0, n1, n2, aboutCentre3 (centre3 n0 n1 n2) (scale3 (1 / s) (1 / s) (1 / s)), .nearest, none,
            ⟨n0, n1, n2⟩⟩

def mirrorMap3 (n0 n1 n2 : Nat) (axis : Nat) : Aff3 :=
  if axis = 0 then ⟨-1, 0, 0, top n0, 0, 1, 0, 0, 0, 0, 1, 0⟩
  else if axis = 1 then ⟨1, 0, 0, 0, 0, -1, 0, top n1, 0, 0, 1, 0⟩
  else ⟨1, 0, 0, 0, 0, 1, 0, 0, 0, 0, -1, top n2⟩

def mirrorPlan3 (n0 n1 n2 : Nat) (axis : Nat) : Except Err Plan3 :=
  if 3 ≤ axis then .error .value
  else .ok ⟨n0, n1, n2, (mirrorMap3 n0 n1 n2 axis).inv, .nearest, none, ⟨n0, n1, n2⟩⟩

def warpPlan3 (n0 n1 n2 : Nat) (T : Aff3) (m : Mode) : Except Err Plan3 :=
  if T.det = 0 then .error .degenerate else .ok ⟨n0, n1, n2, T, m, none, ⟨n0, n1, n2⟩⟩

end MenpoModel.C01
