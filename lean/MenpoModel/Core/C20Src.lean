/-
C20 — the VOCABULARY of the source-to-Lean translation (harness/trans_c20.py on top of harness/py2lean2.py).

`Generated/C20Src.lean` is rewritten on every `./check C20` from the SOURCE TEXT of the functions of the current working
tree that the C20 model stands for (compositions.py, the constructors / axis-angle / quaternion code of rotation.py,
`Affine.init_from_2d_shear`, the `Scale` factory, tcoords.py, the `centre` methods).  Each Python expression of those
bodies is rewritten, by a rule `python pattern -> Lean template`, into one of the operations defined here: this file
says what `Translation(v, skip_checks=True)`, `a.compose_before(b)`, `np.deg2rad(x)`, `np.cos(x)`, `np.array([[..]])`,
`h[0, 1] = v`, `np.dot`, `np.outer`, `np.mean(points, axis=0)` … mean in the model.  `GenProps/C20Src.lean` then proves
every translated body equal to the Core definition the C20 theorems are about, for all arguments.

Core Lean only (no Mathlib).
-/
import MenpoModel.Core.C20Ext

namespace MenpoModel.C20

/-! ### numeric angle arguments

An angle argument is a number the code only ever feeds to `np.deg2rad` and then to `np.cos / np.sin / np.tan`.  The model
keeps the number symbolic and records how many times `deg2rad` was applied (`lvl`); `tr` gives the value of the three
functions at every level.  Level `lvl` = the argument read as radians, level `lvl + 1` = the argument read as degrees
(`cos (deg2rad θ)` is the cosine of the angle that `θ` degrees denote).  The functions `tr.cos`, `tr.sin`, `tr.tan` are
arbitrary, so an equality proved for all `Ang` pins which level the code reads in which branch of the `degrees` flag. -/

structure Trig where
  cos : Nat → Rat
  sin : Nat → Rat
  tan : Nat → Rat

structure Ang where
  tr : Trig
  lvl : Nat

/-- `np.deg2rad(a)` -/
def Ang.deg2rad (a : Ang) : Ang := ⟨a.tr, a.lvl + 1⟩
/-- `np.cos(a)`, `np.sin(a)`, `np.tan(a)` -/
def Ang.cos (a : Ang) : Rat := a.tr.cos a.lvl
def Ang.sin (a : Ang) : Rat := a.tr.sin a.lvl
def Ang.tan (a : Ang) : Rat := a.tr.tan a.lvl
/-- the angle an argument DENOTES when it is given together with the `degrees` flag -/
def Ang.denoted (a : Ang) (degrees : Bool) : Ang := if degrees then a.deg2rad else a

/-! ### vectors and point arrays of either dimension -/

inductive VD where
  | v2 (p : V2)
  | v3 (p : V3)
deriving Repr, DecidableEq

def VD.neg : VD → VD
  | .v2 p => .v2 p.neg
  | .v3 p => .v3 p.neg
instance : Neg VD := ⟨VD.neg⟩

def VD.dim : VD → Nat
  | .v2 _ => 2
  | .v3 _ => 3

/-- `v - k`, `v + k` with a scalar (numpy broadcasting), `u + v`, `v / 2.0` -/
def VD.addScalar : VD → Rat → VD
  | .v2 p, k => .v2 ⟨p.x + k, p.y + k⟩
  | .v3 p, k => .v3 ⟨p.x + k, p.y + k, p.z + k⟩
def VD.subScalar : VD → Rat → VD
  | .v2 p, k => .v2 ⟨p.x - k, p.y - k⟩
  | .v3 p, k => .v3 ⟨p.x - k, p.y - k, p.z - k⟩
instance : HAdd VD Rat VD := ⟨VD.addScalar⟩
instance : HSub VD Rat VD := ⟨VD.subScalar⟩
/-- `u + v`; arrays of different length do not broadcast (ValueError) -/
def VD.add : VD → VD → Except Err VD
  | .v2 p, .v2 q => .ok (.v2 (p.add q))
  | .v3 p, .v3 q => .ok (.v3 (p.add q))
  | _, _ => .error .valueError
def VD.half : VD → VD
  | .v2 p => .v2 ⟨p.x / 2, p.y / 2⟩
  | .v3 p => .v3 ⟨p.x / 2, p.y / 2, p.z / 2⟩

/-- the `points` array of a shape -/
inductive Pts where
  | p2 (ps : List V2)
  | p3 (ps : List V3)
deriving Repr

def V3.smulc (k : Rat) (p : V3) : V3 := V3.smul k p

/-- `np.mean(points, axis=0)` -/
def Pts.meanAxis0 : Pts → VD
  | .p2 ps => .v2 (centreOfMass2 ps)
  | .p3 ps => .v3 (centreOfMass3 ps)

/-- `np.min(points, axis=0)`, `np.max(points, axis=0)` -/
def Pts.minAxis0 : Pts → VD
  | .p2 ps => .v2 ⟨minOf 0 (ps.map (·.x)), minOf 0 (ps.map (·.y))⟩
  | .p3 ps => .v3 ⟨minOf 0 (ps.map (·.x)), minOf 0 (ps.map (·.y)), minOf 0 (ps.map (·.z))⟩
def Pts.maxAxis0 : Pts → VD
  | .p2 ps => .v2 ⟨maxOf 0 (ps.map (·.x)), maxOf 0 (ps.map (·.y))⟩
  | .p3 ps => .v3 ⟨maxOf 0 (ps.map (·.x)), maxOf 0 (ps.map (·.y)), maxOf 0 (ps.map (·.z))⟩

/-- `np.array(shape, dtype=np.double) / 2` -/
def halfShape : List Nat → Except Err VD
  | [h, w] => .ok (.v2 ⟨(h : Rat) / 2, (w : Rat) / 2⟩)
  | [a, b, c] => .ok (.v3 ⟨(a : Rat) / 2, (b : Rat) / 2, (c : Rat) / 2⟩)
  | _ => .error .valueError        -- the model knows 2-D and 3-D images only

/-- `obj.centre()` / `obj.n_dims` of the objects the about-centre helpers are given -/
def Obj.centreD : Obj → VD
  | .d2 o => .v2 o.centre
  | .d3 o => .v3 o.centre

/-! ### matrices as nested lists: `np.array([[…], …])`, `np.eye(n)`, `m[i, j]`, `m[i, j] = v` -/

abbrev Rows := List (List Rat)

def eyeRows (n : Nat) : Rows := (List.range n).map fun i => (List.range n).map fun j => if i == j then 1 else 0
def Rows.get (m : Rows) (i j : Nat) : Rat := (m.getD i []).getD j 0
def Rows.set (m : Rows) (i j : Nat) (v : Rat) : Rows := List.set m i (List.set (m.getD i []) j v)
/-- `m / k` -/
def Rows.divScalar (m : Rows) (k : Rat) : Rows := m.map fun r => r.map fun x => x / k

/-- a 2×2 or 3×3 array as the LINEAR part of a transform (`Rotation(matrix)`) -/
def linOfRows : Rows → Option AffD
  | [[a, b], [c, d]] => some (.a2 ⟨a, b, 0, c, d, 0⟩)
  | [[a, b, c], [d, e, f], [g, h, i]] => some (.a3 ⟨⟨⟨a, b, c⟩, ⟨d, e, f⟩, ⟨g, h, i⟩⟩, ⟨0, 0, 0⟩⟩)
  | _ => none

/-- a 3×3 or 4×4 HOMOGENEOUS matrix whose bottom row is `[0 … 0 1]` (the model holds affine maps only) -/
def affOfHRows : Rows → Option AffD
  | [[a, b, tx], [c, d, ty], [p, q, r]] =>
      if p == 0 && q == 0 && r == 1 then some (.a2 ⟨a, b, tx, c, d, ty⟩) else none
  | [[a, b, c, t0], [d, e, f, t1], [g, h, i, t2], [p, q, r, s]] =>
      if p == 0 && q == 0 && r == 0 && s == 1 then some (.a3 ⟨⟨⟨a, b, c⟩, ⟨d, e, f⟩, ⟨g, h, i⟩⟩, ⟨t0, t1, t2⟩⟩) else none
  | _ => none

/-- `np.dot` on the operand kinds the anchored code uses -/
def dotL : List Rat → List Rat → Rat
  | x :: xs, y :: ys => x * y + dotL xs ys
  | _, _ => 0
def matVec (m : Rows) (v : List Rat) : List Rat := m.map fun r => dotL r v

/-! ### transform objects as `compositions.py` / `tcoords.py` see them -/

def AffD.nDims : AffD → Nat
  | .a2 _ => 2
  | .a3 _ => 3

def Aff3.comp (g f : Aff3) : Aff3 := ⟨g.l.mul f.l, (g.l.apply f.t).add g.t⟩
def transl3 (t : V3) : Aff3 := ⟨Lin3.one, t⟩

/-- `g ∘ f` (h_matrix product `G·F`); `none` when the dimensions differ (numpy refuses the product) -/
def AffD.comp : AffD → AffD → Option AffD
  | .a2 g, .a2 f => some (.a2 (g.comp f))
  | .a3 g, .a3 f => some (.a3 (g.comp f))
  | _, _ => none

/-- a member of a `TransformChain`: a homogeneous transform, or a transform that is not `Homogeneous` (a chain given
as an argument, a non-linear warp …) of which only the identity matters here -/
inductive Leaf where
  | homog (cls : Cls) (m : AffD)
  | other (id : Nat)
deriving Repr, DecidableEq

inductive Tr where
  | homog (cls : Cls) (m : AffD)
  | other (id : Nat)
  | chain (ts : List Leaf)
deriving Repr, DecidableEq

def Tr.leaves : Tr → List Leaf
  | .homog c m => [.homog c m]
  | .other i => [.other i]
  | .chain ts => ts

/-- `isinstance(t, Homogeneous)` -/
def Tr.isHomogeneous : Tr → Bool
  | .homog _ _ => true
  | _ => false

/-- the classes of the homogeneous family (everything but the chain) -/
def Cls.isHomog : Cls → Bool
  | .transformChain => false
  | _ => true

/-- `a.compose_before(b)`: one matrix for two members of the family (ValueError from numpy when the dimensions
differ), otherwise a chain of the members -/
def Tr.composeBefore (a b : Tr) : Except Err Tr :=
  match a, b with
  | .homog ca ma, .homog cb mb =>
    (match mb.comp ma with
     | some m => .ok (.homog (composeCls ca cb) m)
     | none => .error .valueError)
  | a, b => .ok (.chain (a.leaves ++ b.leaves))

/-- `Translation(v, skip_checks=True)` -/
def Tr.translation : VD → Tr
  | .v2 p => .homog .translation (.a2 (transl2 p))
  | .v3 p => .homog .translation (.a3 (transl3 p))

/-- `Rotation(rows, skip_checks=True)` -/
def Tr.rotationOfRows (m : Rows) : Except Err Tr :=
  match linOfRows m with
  | some a => .ok (.homog .rotation a)
  | none => .error .valueError

/-- `cls(h, skip_checks=True)` / `Homogeneous(h)` for a homogeneous matrix given as rows -/
def Tr.ofHRows (cls : Cls) (m : Rows) : Except Err Tr :=
  match affOfHRows m with
  | some a => .ok (.homog cls a)
  | none => .error .valueError

/-- `UniformScale(scale, n, skip_checks=True)`: `np.fill_diagonal` writes a scalar or (cyclically) an array -/
def Tr.uniformScaleSkip (s : ScaleArg) (n : Nat) : Except Err Tr :=
  let vals := match s with
    | .scalar k => [k]
    | .array ks => ks
  if vals.isEmpty then .error .valueError
  else match fillDiagonal vals n with
    | [a, b] => .ok (.homog .uniformScale (.a2 (scale2 a b)))
    | [a, b, c] => .ok (.homog .uniformScale (.a3 (scale3 a b c)))
    | _ => .error .valueError       -- the model knows 2-D and 3-D objects only

/-- `reduce(f, xs)` in the `Except` monad (`reduce` of an empty sequence is a TypeError) -/
def pyReduceM {α : Type} (f : α → α → Except Err α) : List α → Except Err α
  | [] => .error .typeError
  | x :: xs => xs.foldlM f x

/-- the matrix of a scale object the factory returned (`Scale(...)` used as a transform) -/
def ScaleObj.toTr (o : ScaleObj) : Except Err Tr :=
  match o.diag with
  | [a, b] => .ok (.homog o.cls (.a2 (scale2 a b)))
  | [a, b, c] => .ok (.homog o.cls (.a3 (scale3 a b c)))
  | _ => .error .valueError

/-- `t.pseudoinverse()` of a homogeneous 2-D transform: `self.__class__(inverse)`; the model inverts 2-D affine maps -/
def Tr.pseudoinverse : Tr → Except Err Tr
  | .homog c (.a2 m) => .ok (.homog c (.a2 m.inv))
  | _ => .error .notImplementedError

/-! ### the `Scale` factory's view of its argument -/

/-- `isinstance(x, Number)` -/
def ScaleArg.isNumber : ScaleArg → Bool
  | .scalar _ => true
  | .array _ => false
/-- `np.all(x)` -/
def ScaleArg.allNonzero : ScaleArg → Bool
  | .scalar k => !(k == 0)
  | .array ks => !(ks.any (· == 0))
/-- `x[0]`: TypeError on a Python number, IndexError on an empty array -/
def ScaleArg.item0 : ScaleArg → Except Err ScaleArg
  | .scalar _ => .error .typeError
  | .array [] => .error .indexError
  | .array (k :: _) => .ok (.scalar k)
/-- `np.allclose(x, v)` for exactly equal / clearly different factors -/
def ScaleArg.allClose (x v : ScaleArg) : Bool :=
  match x, v with
  | .scalar a, .scalar b => a == b
  | .array ks, .scalar b => ks.all (· == b)
  | _, _ => false
/-- `x.shape[0]` as an optional dimension (an array has one; the model's numbers have no `shape`) -/
def ScaleArg.shape0 : ScaleArg → Except Err (Option Nat)
  | .scalar _ => .error .typeError
  | .array ks => .ok (some ks.length)
/-- `np.ndim(x)` -/
def ScaleArg.ndim : ScaleArg → Nat
  | .scalar _ => 0
  | .array _ => 1
/-- `x.shape != (n,)` -/
def ScaleArg.shapeNe (x : ScaleArg) (n : Option Nat) : Bool :=
  match x, n with
  | .array ks, some n => !(ks.length == n)
  | _, _ => true
/-- `UniformScale(x, n)` with the 2-D/3-D guard of the class; `n` may be missing (`None`: TypeError in the comparison) -/
def mkUniformScaleArg (x : ScaleArg) (n : Option Nat) : Except Err ScaleObj :=
  match n with
  | none => .error .typeError
  | some n => (match x with
    | .scalar k => mkUniformScale [k] n
    | .array ks => mkUniformScale ks n)
/-- `NonUniformScale(x)` -/
def mkNonUniformScaleArg : ScaleArg → Except Err ScaleObj
  | .scalar _ => .error .valueError       -- `np.asarray(k).size` is 1
  | .array ks => mkNonUniformScale ks

/-- `np.array(image_shape) - 1` -/
def shapeMinusOne (shape : List Nat) : ScaleArg := .array (shape.map fun (n : Nat) => (n : Rat) - 1)

/-! ### 2-D axis and angle, quaternions -/

/-- the value `np.arccos(c)` (an angle in `[0, π]` known by its cosine), possibly multiplied by `-1.0` afterwards -/
structure ArcAngle where
  cos : Rat
  negated : Bool
deriving Repr, DecidableEq

def ArcAngle.negate (a : ArcAngle) : ArcAngle := ⟨a.cos, !a.negated⟩

def Tr.nDims : Tr → Nat
  | .homog _ m => m.nDims
  | _ => 0

/-- `t.rotation_matrix` (= `linear_component`) as rows -/
def Tr.linRows : Tr → Rows
  | .homog _ (.a2 m) => [[m.a, m.b], [m.c, m.d]]
  | .homog _ (.a3 m) => [[m.l.r0.x, m.l.r0.y, m.l.r0.z], [m.l.r1.x, m.l.r1.y, m.l.r1.z], [m.l.r2.x, m.l.r2.y, m.l.r2.z]]
  | _ => []

/-- `t.h_matrix` as rows -/
def Tr.hRows : Tr → Rows
  | .homog _ (.a2 m) => [[m.a, m.b, m.tx], [m.c, m.d, m.ty], [0, 0, 1]]
  | .homog _ (.a3 m) =>
      [[m.l.r0.x, m.l.r0.y, m.l.r0.z, m.t.x], [m.l.r1.x, m.l.r1.y, m.l.r1.z, m.t.y],
       [m.l.r2.x, m.l.r2.y, m.l.r2.z, m.t.z], [0, 0, 0, 1]]
  | _ => []

/-- `t.h_matrix[i, j]` -/
def Tr.hGet (t : Tr) (i j : Nat) : Rat := Rows.get t.hRows i j

/-- `t.set_rotation_matrix(rows, skip_checks=True)`: the linear block is overwritten (numpy refuses another shape) -/
def Tr.setRotationSkip (t : Tr) (rows : Rows) : Except Err Tr :=
  match t, linOfRows rows with
  | .homog c (.a2 m), some (.a2 r) => .ok (.homog c (.a2 ⟨r.a, r.b, m.tx, r.c, r.d, m.ty⟩))
  | .homog c (.a3 m), some (.a3 r) => .ok (.homog c (.a3 ⟨r.l, m.t⟩))
  | _, _ => .error .valueError

/-- the vector `v · sqrt(r)` (`p * np.sqrt(2.0 / n)`): the square root is never taken, only `sqrt(r)·sqrt(r) = r` is used -/
structure SqrtVec where
  v : List Rat
  r : Rat
deriving Repr

/-- `np.outer(p, p)` for `p = v·sqrt(r)`: entries `vᵢ vⱼ r` -/
def SqrtVec.outer (a b : SqrtVec) : Rows :=
  if a.r == b.r then a.v.map fun x => b.v.map fun y => x * y * a.r else []

/-- the symmetric matrix whose lower triangle is `m` (`np.linalg.eigh` reads the lower triangle only) -/
def symmFromLower (m : Rows) : Rows :=
  (List.range m.length).map fun i => (List.range m.length).map fun j => if j ≤ i then m.get i j else m.get j i

/-- `V[idx, j]`: the entries `idx` of column `j` -/
def pickCol (V : Rows) (idx : List Nat) (j : Nat) : List Rat := idx.map fun i => V.get i j

/-- `np.argmax(w)`: index of the first maximum -/
def argmaxL : List Rat → Nat
  | [] => 0
  | [_] => 0
  | x :: y :: ys => if (y :: ys).getD (argmaxL (y :: ys)) 0 ≤ x then 0 else argmaxL (y :: ys) + 1

def vecNeg (v : List Rat) : List Rat := v.map fun x => -x

/-! ### 3-D axis and angle: the vocabulary of `_axis_and_angle_of_rotation_3d`

`np.linalg.eig`, `np.sqrt` and `np.random.rand` are parameters (oracles) of the translated function: an eigenvalue is
known by whether it is real and by its real part, the eigenvectors are the columns. -/

structure EVal where
  isReal : Bool
  re : Rat
deriving Repr, DecidableEq

def rabs (v : Rat) : Rat := if v < 0 then -v else v

/-- boolean-mask indexing `xs[mask]` / `M[:, mask]` (columns) -/
def maskSel {α : Type} (xs : List α) (m : List Bool) : List α :=
  (xs.zip m).filterMap fun p => if p.2 then some p.1 else none

/-- `x[mask]` with a boolean mask on the FIRST axis: the elements of a 1-D array, the ROWS of a 2-D array (held as the
list of its columns) — a different word from the column mask `M[:, mask]` = `maskSel` on the list of columns -/
class PyMask (α : Type) where
  sel : α → List Bool → α
instance : PyMask (List EVal) := ⟨maskSel⟩
instance : PyMask (List Rat) := ⟨maskSel⟩
instance : PyMask (List (List Rat)) := ⟨fun cols m => cols.map fun c => maskSel c m⟩

def vecSub (a b : List Rat) : List Rat := List.zipWith (· - ·) a b

/-- `np.cross` on 3-vectors -/
def crossL : List Rat → List Rat → List Rat
  | [a, b, c], [d, e, f] => [b * f - c * e, c * d - a * f, a * e - b * d]
  | _, _ => []

/-- `v / np.sqrt((v ** 2).sum())` with the square root as an oracle -/
def normalizeL (sqrt : Rat → Rat) (v : List Rat) : List Rat := v.map (· / sqrt (dotL v v))

/-- the answer of `_axis_and_angle_of_rotation_3d`: `(None, None)` or `(axis, angle)` -/
abbrev AA3 := Option (List Rat × ArcAngle)

/-- the tolerance `error = 1e-07` of the code -/
def unitTol : Rat := (1 : Rat) / 10000000

/-- an eigenvalue the code keeps: real, with modulus within `1e-7` of one -/
def EVal.unitReal (e : EVal) : Bool := e.isReal && decide (rabs e.re < 1 + unitTol) && decide (1 - unitTol < rabs e.re)

/-- MIRROR, first half: the eigenvectors (columns) whose eigenvalue is real and of modulus one, by the two successive
boolean masks of the code -/
def axisCandidates (eig : Rows → List EVal × List (List Rat)) (t : Tr) : List (List Rat) :=
  let ev := eig t.linRows
  let realMask := ev.1.map EVal.isReal
  let realEval := (maskSel ev.1 realMask).map EVal.re
  let evecReal := maskSel ev.2 realMask
  let below := realEval.map fun v => decide (rabs v < 1 + unitTol)
  let above := realEval.map fun v => decide (1 - unitTol < rabs v)
  maskSel evecReal (List.zipWith (· && ·) below above)

/-- MIRROR, second half: normalisation, the perpendicular from the random vector, `arccos` and the sign by the triple
product, from the eigenvector `a0` -/
def axisAngle3After (sqrt : Rat → Rat) (rand : List Rat) (t : Tr) (a0 : List Rat) : List Rat × ArcAngle :=
  let axis := normalizeL sqrt a0
  let perp := normalizeL sqrt (crossL axis (vecSub axis rand))
  let tv := matVec t.linRows perp
  let angle : ArcAngle := ⟨dotL tv perp, false⟩
  if dotL axis (crossL perp tv) < 0 then (axis, angle.negate) else (axis, angle)

/-- MIRROR of `_axis_and_angle_of_rotation_3d` (the definition `genAxisAndAngle3d` is proved equal to) -/
def axisAngle3Src (eig : Rows → List EVal × List (List Rat)) (sqrt : Rat → Rat) (rand : List Rat) (t : Tr) : AA3 :=
  if (axisCandidates eig t).length != 1 then none
  else some (axisAngle3After sqrt rand t ((axisCandidates eig t).getD 0 []))

/-- the spectrum of the rotation by the angle `(c, s)`: `1` and `c ± i s` (real exactly when `s = 0`) -/
def rotationSpectrum (c s : Rat) : List EVal := [⟨true, 1⟩, ⟨s == 0, c⟩, ⟨s == 0, c⟩]

/-! ### quaternions: `_as_vector` -/

/-- the lower triangle of the matrix `K` of `_as_vector`, as the source writes it -/
def quatKLower (m : Lin3) : Rows :=
  [[m.r0.x - m.r1.y - m.r2.z, 0, 0, 0],
   [m.r0.y + m.r1.x, m.r1.y - m.r0.x - m.r2.z, 0, 0],
   [m.r0.z + m.r2.x, m.r1.z + m.r2.y, m.r2.z - m.r0.x - m.r1.y, 0],
   [m.r2.y - m.r1.z, m.r0.z - m.r2.x, m.r1.x - m.r0.y, m.r0.x + m.r1.y + m.r2.z]]

/-- MIRROR of `Rotation._as_vector` for a 3-D rotation with `np.linalg.eigh` as an oracle: the eigenvector of the largest
eigenvalue of `K/3`, reordered from `(x, y, z, w)` to `(w, x, y, z)`, with a non-negative scalar part -/
def asVectorSrc (eigh : Rows → List Rat × Rows) (m : Lin3) : List Rat :=
  let wv := eigh ((quatKLower m).divScalar 3)
  let q := pickCol wv.2 [3, 0, 1, 2] (argmaxL wv.1)
  if q.getD 0 0 < 0 then vecNeg q else q

/-- `cls.init_identity(n)` as a transform object (2-D / 3-D; the guard of the classes that have one is `initIdentity`) -/
def identityTr (k : Cls) (n : Nat) : Except Err Tr :=
  match initIdentity k n with
  | .error e => .error e
  | .ok (k', n') =>
    if n' == 2 then .ok (.homog k' (.a2 ⟨1, 0, 0, 0, 1, 0⟩))
    else if n' == 3 then .ok (.homog k' (.a3 ⟨Lin3.one, ⟨0, 0, 0⟩⟩))
    else .error .valueError        -- the model holds 2-D and 3-D matrices only

/-! ### constructors and `init_identity`: arrays known by their shape

The guards of the constructors (`UniformScale`, `NonUniformScale`, `Affine._set_h_matrix`, `Rotation.set_rotation_matrix`)
look at shapes and at the bottom row only, so an array is modelled by its shape (`Int`s, as in Python) and by whether
its bottom row is `[0 … 0 1]`; an object under construction by its class and the array stored in `_h_matrix`. -/

inductive ArrV where
  | mat (rows cols : Int) (bottomZeros cornerOne : Bool)
  | vec (n : Int)
  | scalar
deriving Repr, DecidableEq

/-- `np.eye(k)` -/
def ArrV.eye (k : Int) : ArrV := .mat k k true true
/-- `x.shape` -/
def ArrV.shape : ArrV → List Int
  | .mat r c _ _ => [r, c]
  | .vec n => [n]
  | .scalar => []
/-- `x.size` -/
def ArrV.size : ArrV → Int
  | .mat r c _ _ => r * c
  | .vec n => n
  | .scalar => 1
/-- `np.allclose(x[-1, :-1], 0)` -/
def ArrV.bottomZeros : ArrV → Bool
  | .mat _ _ b _ => b
  | _ => false
/-- `np.allclose(x[-1, -1], 1)` -/
def ArrV.cornerOne : ArrV → Bool
  | .mat _ _ _ b => b
  | _ => false

structure HState where
  cls : Cls
  h : Option ArrV
deriving Repr, DecidableEq

/-- the object before its constructor has run -/
def HState.new (k : Cls) : HState := ⟨k, none⟩
/-- `self._h_matrix = None` / `self._h_matrix = value` -/
def HState.clearH (s : HState) : HState := ⟨s.cls, none⟩
def HState.withH (s : HState) (v : ArrV) : HState := ⟨s.cls, some v⟩
/-- `self.n_dims` = `self.h_matrix.shape[1] - 1` -/
def HState.nDimsI (s : HState) : Int :=
  match s.h with
  | some v => v.shape.getD 1 0 - 1
  | none => 0

/-- the dynamic call `self._set_h_matrix(value, copy=…, skip_checks=…)` -/
def setHDispatch (fH fA : HState → ArrV → Bool → Bool → Except Err HState) (s : HState) (v : ArrV) (copy skip : Bool) :
    Except Err HState :=
  if s.cls.setHIsAffine then fA s v copy skip else fH s v copy skip

/-- what `init_identity` leaves: the class and the dimension of the object -/
def HState.summary (s : HState) : Cls × Int := (s.cls, s.nDimsI)

/-! ### documented defaults of the option parameters (compared with the source on every run) -/
def expectedDefaults : List (String × String × String) :=
  [("Rotation.init_from_2d_ccw_angle", "degrees", "True"),
   ("Rotation.init_from_3d_ccw_angle_around_x", "degrees", "True"),
   ("Rotation.init_from_3d_ccw_angle_around_y", "degrees", "True"),
   ("Rotation.init_from_3d_ccw_angle_around_z", "degrees", "True"),
   ("Affine.init_from_2d_shear", "degrees", "True"),
   ("rotate_ccw_about_centre", "degrees", "True"),
   ("shear_about_centre", "degrees", "True"),
   ("Scale", "n_dims", "None"),
   ("PointCloud.bounds", "boundary", "0")]

end MenpoModel.C20
