/-
C12 — the statement tables of the assembly routines of menpo/model/gmrf.py.

`extract_c12.py` re-reads the live source on every run and writes what it finds as values of these types
(`Generated/C12Tables.lean`); `GenProps/C12.lean` obliges them to equal the `model…` tables below by
`decide`; `Props/C12.lean` proves that the executable model (`denseStep`, `edgeTrips`, `denseDiagFrom`,
`diagTrips`, `indptrStep`, the dispatch of `build`) *is* the interpretation of the `model…` tables.  So the
order of the statements, `+=` versus `=`, which slice of the inverted covariance goes where, the two
branches of the `indptr` loop and the constructor dispatch are tied to the current code, not to a
transcription made once.
-/
import MenpoModel.Core.C12GMRF

namespace MenpoModel.C12

/-- which part of the inverted covariance a statement reads: `covmat[half r, half c]`
(`false` = `:n_features_per_vertex`, `true` = `n_features_per_vertex::`), `covmat`, `-covmat` -/
inductive Src
  | part (r c : Bool)
  | full
  | negFull
  deriving DecidableEq, Repr

inductive Op | add | set
  deriving DecidableEq, Repr

/-- `precision[v_rv block, v_cv block] (op)= src`; `rv`, `cv` ∈ {1, 2} name the edge's vertices -/
structure DStmt where
  op : Op
  rv : Nat
  cv : Nat
  src : Src
  deriving DecidableEq, Repr

/-- `count += 1; all_blocks[count] = src; rows[count] = v_rv; columns[count] = v_cv` -/
structure TStmt where
  rv : Nat
  cv : Nat
  src : Src
  deriving DecidableEq, Repr

def Src.block (s : Src) (k : Nat) (B : Mat) : Mat :=
  match s with
  | .part r c => blkOf B (bif r then k else 0) (bif c then k else 0) k
  | .full => blkOf B 0 0 k
  | .negFull => negBlk B k

def pickV (e : Nat × Nat) (i : Nat) : Nat := if i = 1 then e.1 else e.2

def runDStmt (k n : Nat) (e : Nat × Nat) (B : Mat) (P : Mat) (st : DStmt) : Mat :=
  match st.op with
  | .add => addBlock n P (pickV e st.rv * k) (pickV e st.cv * k) k (st.src.block k B)
  | .set => setBlock n P (pickV e st.rv * k) (pickV e st.cv * k) k (st.src.block k B)

def denseStepT (tbl : List DStmt) (k n : Nat) (P : Mat) (eB : (Nat × Nat) × Mat) : Mat :=
  tbl.foldl (runDStmt k n eB.1 eB.2) P

def edgeTripsT (tbl : List TStmt) (k : Nat) (e : Nat × Nat) (B : Mat) : List Trip :=
  tbl.map fun st => ⟨pickV e st.rv, pickV e st.cv, st.src.block k B⟩

/-- the loop bodies as the model has them -/
def modelDenseTable : Mode → List DStmt
  | .concat => [⟨.add, 1, 1, .part false false⟩, ⟨.add, 2, 2, .part true true⟩,
                ⟨.set, 1, 2, .part false true⟩, ⟨.set, 2, 1, .part true false⟩]
  | .sub => [⟨.set, 1, 2, .negFull⟩, ⟨.set, 2, 1, .negFull⟩, ⟨.add, 1, 1, .full⟩, ⟨.add, 2, 2, .full⟩]

def modelTripTable : Mode → List TStmt
  | .concat => [⟨1, 1, .part false false⟩, ⟨2, 2, .part true true⟩, ⟨1, 2, .part false true⟩, ⟨2, 1, .part true false⟩]
  | .sub => [⟨1, 1, .full⟩, ⟨2, 2, .full⟩, ⟨1, 2, .negFull⟩, ⟨2, 1, .negFull⟩]

/-- edgeless constructors: `precision[v block, v block] = covmat` resp. `all_blocks[v] = covmat; rows[v] = v; columns[v] = v`
(`rv = cv = 0` names the loop vertex) -/
def modelDiagDenseTable : List DStmt := [⟨.set, 0, 0, .full⟩]
def modelDiagTripTable : List TStmt := [⟨0, 0, .full⟩]

/-! ### the `indptr` loop body -/

/-- right-hand sides of the assignments in the loop body: `indptr[i + off]`, `inds[0]`, `inds[-1] + c` -/
inductive IVal
  | ipAt (off : Nat)
  | first
  | lastPlus (c : Nat)
  deriving DecidableEq, Repr

/-- `indptr[i + off] = val` -/
structure IAsg where
  off : Nat
  val : IVal
  deriving DecidableEq, Repr

def runIAsg (i : Nat) (inds : List Nat) (ip : List Nat) (a : IAsg) : List Nat :=
  ip.set (i + a.off) (match a.val with
    | .ipAt off => ip.getD (i + off) 0
    | .first => inds.headD 0
    | .lastPlus c => inds.getLast?.getD 0 + c)

/-- `if inds.size == 0: <emptyTbl> else: <someTbl>` -/
def indptrStepT (emptyTbl someTbl : List IAsg) (rows : List Nat) (ip : List Nat) (i : Nat) : List Nat :=
  let inds := whereEq i rows 0
  if inds.isEmpty then emptyTbl.foldl (runIAsg i inds) ip else someTbl.foldl (runIAsg i inds) ip

def modelIndptrEmpty : List IAsg := [⟨1, .ipAt 0⟩]
def modelIndptrSome : List IAsg := [⟨0, .first⟩, ⟨1, .lastPlus 1⟩]

/-! ### constructor dispatch of `GMRFVectorModel.__init__` -/

inductive Ctor | sparseDiag | denseDiag | sparseEdges | denseEdges
  deriving DecidableEq, Repr

/-- `if graph.n_edges == 0: (sparse ? …diagonal… : …diagonal…) else: (sparse ? … : …)` -/
def ctorOf (edgeless sparse : Bool) : Ctor :=
  match edgeless, sparse with
  | true, true => .sparseDiag
  | true, false => .denseDiag
  | false, true => .sparseEdges
  | false, false => .denseEdges

/-- what each constructor computes from the per-unit inverted covariances -/
def Ctor.dense (c : Ctor) (m : Mode) (k n : Nat) (es : List (Nat × Nat)) (Bs : List Mat) : Option Mat :=
  match c with
  | .denseDiag => some (MenpoModel.C12.denseDiag k n Bs)
  | .denseEdges => some (MenpoModel.C12.dense m k n es Bs)
  | _ => none

def Ctor.sparse (c : Ctor) (m : Mode) (k V : Nat) (es : List (Nat × Nat)) (Bs : List Mat) : Option BSR :=
  match c with
  | .sparseDiag => some (assemble V (diagTrips k 0 Bs))
  | .sparseEdges => some (assemble V (allTrips m k es Bs))
  | _ => none

/-- the source text (token stream, comments and layout dropped) of the two routines the model transcribes
as whole functions: `_covariance_matrix_inverse` (→ `covInverse`, `svdTrunc`) and
`GMRFVectorModel._mahalanobis_distance` (→ `subMean`, `mahalSparse`, `mahalDense`) -/
def modelCovInverseSrc : String :=
  "def _covariance_matrix_inverse ( cov_mat , n_components ) : cov_mat = np . atleast_2d ( cov_mat ) if n_components is None : return np . linalg . inv ( cov_mat ) else : try : s , v , d = np . linalg . svd ( cov_mat ) s = s [ : , : n_components ] v = v [ : n_components ] d = d [ : n_components , : ] return s . dot ( np . diag ( 1 / v ) ) . dot ( d ) except : return np . linalg . inv ( cov_mat )"

def modelMahalanobisSrc : String :=
  "def _mahalanobis_distance ( self , samples , subtract_mean , square_root ) : if subtract_mean : n_samples = samples . shape [ 0 ] samples = samples - np . tile ( self . mean_vector [ ... , None ] , n_samples ) . T if self . sparse : tmp = self . precision . dot ( samples . T ) d = samples . dot ( tmp ) d = np . diag ( d ) else : d = np . einsum ( \"ij,ij->i\" , np . dot ( samples , self . precision ) , samples ) if d . shape [ 0 ] == 1 : d = d [ 0 ] if square_root : return np . sqrt ( d ) else : return d"

end MenpoModel.C12
