/-
C13 — the vocabulary of the SOURCE TRANSLATION (harness/trans_c13.py, Generated/C13Src.lean) and the hand-written
mirror definitions `Src.*`.  Core Lean only (no Mathlib).

Part 1 is the vocabulary: one Lean operation per numpy / menpo expression that occurs in the translated functions
(`np.floor`, boolean-mask assignment, `np.clip`, `np.round(..).astype(int)`, slice objects, basic-slice assignment,
`np.linspace / meshgrid / stack / reshape / transpose`, iteration over an array, `PointCloud.bounds`, ...).
Each operation says what the numpy expression computes on the model's data (lists of rationals / integers,
`NDArr`), including the error it raises.

Part 2 holds the mirrors: for every translated function a definition `Src.f` written over the same vocabulary in
the shape of the Python source (loops are folds, in-place assignments rebind).  Two things are proved about them:
  * `Lemmas/C13Src.lean` (hand-written, stable):   `Src.f = ` the Core definition the C13 theorems are about
    (`crop .repaired`, `extractSlice`, `extractSampling .repaired`, `setPatches .repaired`, the wrappers);
  * `GenProps/C13Src.lean` (re-checked against the text regenerated from /repo on every run):
    `Generated.genF = Src.f` for all arguments.
-/
import MenpoModel.Core.C13Api
import MenpoModel.Core.PyLoop

set_option linter.unusedVariables false

namespace MenpoModel.C13.Src
open MenpoModel.C13 MenpoModel.PyData

/-! ## Part 1 — vocabulary -/

/-- an image: pixel array of shape `C :: spatial` and (one group of) landmarks -/
abbrev Img (α : Type) := NDArr α × List (List Rat)
abbrev IPt := Int × Int
/-- `bounds[i, j]` of `extract_patches_with_slice`: `[[r0, c0], [r1, c1]]` -/
abbrev Bnd := IPt × IPt

namespace Img
variable {α : Type}
/-- `self.n_dims` -/
def nDims (pix : NDArr α) : Nat := pix.shape.tail.length
/-- `self.shape` -/
def shape (pix : NDArr α) : List Nat := pix.shape.tail

/-- `self.warp_to_shape(new_shape, Translation(t), order=0, warp_landmarks=True)`: the index grid of `new_shape`
is translated by `t` and sampled per channel (order 0, constant mode, fill `zero`); the landmarks go through the
inverse translation -/
def warpTranslate0 (zero : α) (pix : NDArr α) (lms : List (List Rat)) (newShape t : List Int) : Img α :=
  (ofFn (pix.shape.headD 0 :: newShape.map Int.toNat) fun idx =>
      match idx with
      | c :: p => sample0c pix c (List.zipWith (fun (i : Nat) (m : Int) => ((((i : Int) + m : Int)) : Rat)) p t) zero
      | [] => zero,
   lms.map fun pt => List.zipWith (fun x (m : Int) => x - (m : Rat)) pt t)

/-- start and extent of every axis of `self.pixels[(slice(None),) + block]` -/
def blockPlan : List Nat → List (Int × Int) → List (Nat × Nat)
  | n :: s, b :: bs => ((pySliceN n b.1 b.2).1, (pySliceN n b.1 b.2).2 - (pySliceN n b.1 b.2).1) :: blockPlan s bs
  | _, _ => []

/-- `self.pixels[(slice(None),) + block]` (basic slicing: every channel, one python slice per spatial axis) -/
def block (zero : α) (pix : NDArr α) (blk : List (Int × Int)) : NDArr α :=
  let plan := blockPlan pix.shape.tail blk
  ofFn (pix.shape.headD 0 :: plan.map (·.2)) fun idx =>
    match idx with
    | c :: p => pix.getD (c :: List.zipWith (fun (i : Nat) (q : Nat × Nat) => i + q.1) p plan) zero
    | [] => zero

/-- `cropped.pixels[...] = values`: numpy copies when the shapes agree (extent-1 broadcasting cannot arise here:
the block has the extents of the warped image) and raises ValueError otherwise -/
def assignAll (img : Img α) (values : NDArr α) : Except Err (Img α) :=
  if values.shape = img.1.shape then .ok (⟨img.1.shape, values.data⟩, img.2) else .error .value
end Img

/-! per-axis index vectors (`min_indices`, `max_indices`, `shape`, ...) -/
namespace V
def floor (x : List Rat) : List Int := x.map Rat.floor
def ceil (x : List Rat) : List Int := x.map Rat.ceil
def toRat (x : List Int) : List Rat := x.map fun (i : Int) => (i : Rat)
def ofNat (x : List Nat) : List Int := x.map fun (i : Nat) => (i : Int)
/-- `.astype(int)` of a vector that already holds whole numbers -/
def asInt (x : List Int) : List Int := x
/-- `np.all(a > b)` -/
def allGt (a b : List Int) : Bool := (List.zipWith (fun x y => decide (x > y)) a b).all id
/-- `np.all(a == b)` -/
def allEq (a b : List Int) : Bool := (List.zipWith (fun (x y : Int) => x == y) a b).all id
def sub (a b : List Int) : List Int := List.zipWith (· - ·) a b
/-- `a < 0` (element-wise) -/
def ltZero (a : List Int) : List Bool := a.map fun x => decide (x < 0)
/-- `b[mask] = v` -/
def maskFill (b : List Int) (mask : List Bool) (v : Int) : List Int :=
  List.zipWith (fun x (m : Bool) => if m then v else x) b mask
/-- `b[mask] = s[mask]` -/
def maskAssign (b : List Int) (mask : List Bool) (s : List Int) : List Int :=
  List.zipWith (fun (xm : Int × Bool) (y : Int) => if xm.2 then y else xm.1) (List.zip b mask) s
/-- `np.min(x)` of a vector (ValueError on an empty one) -/
def minE (x : List Rat) : Except Err Rat := if x.isEmpty then .error .value else .ok (minL x)
def maxE (x : List Rat) : Except Err Rat := if x.isEmpty then .error .value else .ok (maxL x)
end V

instance : HSub (List Rat) Rat (List Rat) := ⟨fun l b => l.map (· - b)⟩
instance : HAdd (List Rat) Rat (List Rat) := ⟨fun l b => l.map (· + b)⟩
instance : HSub (List Rat) (List Rat) (List Rat) := ⟨fun a b => List.zipWith (· - ·) a b⟩
instance : HSub (List Int) Int (List Int) := ⟨fun l b => l.map (· - b)⟩
instance : HAdd (List Int) Int (List Int) := ⟨fun l b => l.map (· + b)⟩

/-! point clouds: `n × d` arrays as lists of rows -/
namespace Pc
/-- `np.min(points, axis=0)`; numpy raises ValueError on an array without rows -/
def colMin (pts : List (List Rat)) : Except Err (List Rat) :=
  if pts.isEmpty then .error .value else .ok ((List.range (pcDims pts)).map fun k => minL (column pts k))
def colMax (pts : List (List Rat)) : Except Err (List Rat) :=
  if pts.isEmpty then .error .value else .ok ((List.range (pcDims pts)).map fun k => maxL (column pts k))
/-- the same reductions on integer index arrays (`true_indices()`), answered as integer vectors -/
def colMinZ (idx : List (List Nat)) : Except Err (List Int) :=
  if idx.isEmpty then .error .value
  else .ok ((List.range (pcDims (natPts idx))).map fun k => (minL (column (natPts idx) k)).floor)
def colMaxZ (idx : List (List Nat)) : Except Err (List Int) :=
  if idx.isEmpty then .error .value
  else .ok ((List.range (pcDims (natPts idx))).map fun k => (maxL (column (natPts idx) k)).floor)
end Pc

namespace Mask
/-- `self.all_true()` -/
def allTrue (mask : NDArr Bool) : Bool := (indices mask.shape.tail).all fun p => mask.getD (0 :: p) false
/-- `self.indices()` (`indices_for_image_of_shape`) -/
def allIndices (mask : NDArr Bool) : List (List Nat) := indices mask.shape.tail
/-- `np.vstack(np.nonzero(self.pixels[0])).T`: the `True` positions in C order -/
def nonzeroIndices (mask : NDArr Bool) : List (List Nat) := C13.trueIndices mask
end Mask

instance : Add Pt := ⟨fun a b => (a.1 + b.1, a.2 + b.2)⟩
instance : HAdd (List Pt) Pt (List Pt) := ⟨fun l p => l.map (· + p)⟩

theorem pt_add (a b : Pt) : a + b = (a.1 + b.1, a.2 + b.2) := rfl
theorem listPt_add (l : List Pt) (p : Pt) : l + p = l.map (· + p) := rfl

/-- sub-array `a[i]` (no bounds check: callers guard) -/
def _root_.MenpoModel.C13.NDArr.row {α : Type} (a : NDArr α) (i : Nat) : NDArr α :=
  ⟨a.shape.tail, (a.data.drop (i * sz a.shape.tail)).take (sz a.shape.tail)⟩

/-- iterating over an array yields `a[0], a[1], ...` -/
def _root_.MenpoModel.C13.NDArr.rows {α : Type} (a : NDArr α) : List (NDArr α) := (List.range (a.shape.headD 0)).map a.row

/-- what `for x in <value>` / `zip(<value>, ..)` iterates over -/
class PyIter (τ : Type) (β : outParam Type) where
  iter : τ → List β
instance {β : Type} : PyIter (List β) β := ⟨id⟩
instance {α : Type} : PyIter (NDArr α) (NDArr α) := ⟨NDArr.rows⟩

/-- `x.shape[0]` -/
class HasLen0 (τ : Type) where
  len0 : τ → Nat
instance {β : Type} : HasLen0 (List β) := ⟨List.length⟩
instance {β : Type} : HasLen0 (Option (List β)) := ⟨fun o => (o.getD []).length⟩
instance {α : Type} : HasLen0 (NDArr α) := ⟨fun a => a.shape.headD 0⟩

/-- python `int(x)` -/
class PyInt (τ : Type) (σ : outParam Type) where
  pyInt : τ → σ
instance : PyInt Nat Nat := ⟨id⟩
instance : PyInt Int Int := ⟨id⟩
instance : PyInt Rat Int := ⟨truncZ⟩

namespace Np
variable {α : Type}

def iter {τ β : Type} [PyIter τ β] (x : τ) : List β := PyIter.iter x
def len0 {τ : Type} [HasLen0 τ] (x : τ) : Nat := HasLen0.len0 x
def pyInt {τ σ : Type} [PyInt τ σ] (x : τ) : σ := PyInt.pyInt x
/-- `len(patch_shape)` -/
def len2 (_ : Nat × Nat) : Nat := 2
def ndim (a : NDArr α) : Nat := a.shape.length
/-- `.ndim` of an array that is carried together with the error of an earlier in-place assignment -/
def ndimE (a : Except Err (NDArr α)) : Nat :=
  match a with
  | .ok x => x.shape.length
  | .error _ => 0
/-- `pixels.shape[1:]` of a `(C, H, W)` array -/
def spatial (a : NDArr α) : Nat × Nat := (a.shape.getD 1 0, a.shape.getD 2 0)
/-- `patches.shape[-2:]` -/
def last2 (a : NDArr α) : Nat × Nat := (a.shape.getD (a.shape.length - 2) 0, a.shape.getD (a.shape.length - 1) 0)
/-- python `/` on two non-negative integers: true division -/
def tdiv (a b : Nat) : Rat := (a : Rat) / (b : Rat)
/-- python `//` and `%` on non-negative integers -/
def fdiv (a b : Nat) : Nat := a / b
def pmod (a b : Nat) : Nat := a % b
/-- `(np.array([patch_shape]) % 2) / 2` -/
def halfPixel (ps : Nat × Nat) : Pt := (C13.halfPixel ps.1, C13.halfPixel ps.2)
/-- `enumerate(xs)` -/
def enumerate {β : Type} (xs : List β) : List (Nat × β) := xs.zipIdx.map fun p => (p.2, p.1)
/-- `offset[0]` of the `(1, 2)` integer offset array -/
def toPt (o : Int × Int) : Pt := ((o.1 : Rat), (o.2 : Rat))
/-- `np.round(p)` of one point (half to even), as whole numbers -/
def roundPt (p : Pt) : IPt := (roundHalfEven p.1, roundHalfEven p.2)

/-- `patch_centers[:, None, None, :] + offsets[:, None, :] + corners`: for every centre and offset the two
corner points (shape `(n, k, 2, 2)`) -/
def cornerGrid (centres : List Pt) (offsets : Option (List Pt)) (corners : Pt × Pt) : List (List (Pt × Pt)) :=
  centres.map fun c => (offsets.getD []).map fun o => (c + o + corners.1, c + o + corners.2)

/-- `np.round(x).astype(int)` on the corner grid -/
def roundBounds (g : List (List (Pt × Pt))) : List (List Bnd) :=
  g.map fun row => row.map fun b => (roundPt b.1, roundPt b.2)

/-- `bounds[:, :, 1, :] = bounds[:, :, 0, :] + np.asarray(patch_shape)`: the high corner of every window becomes its
low corner plus the patch shape -/
def highFromLow (b : List (List Bnd)) (ps : Nat × Nat) : List (List Bnd) :=
  b.map fun row => row.map fun x => (x.1, (x.1.1 + (ps.1 : Int), x.1.2 + (ps.2 : Int)))

def clipBnd (s : Nat × Nat) (x : Bnd) : Bnd := ((clip0 s.1 x.1.1, clip0 s.2 x.1.2), (clip0 s.1 x.2.1, clip0 s.2 x.2.2))

/-- `np.clip(bounds, [0, 0], [shape])` -/
def clipBounds (b : List (List Bnd)) (s : Nat × Nat) : List (List Bnd) := b.map fun row => row.map (clipBnd s)

def subBnd (x y : Bnd) : Bnd := ((x.1.1 - y.1.1, x.1.2 - y.1.2), (x.2.1 - y.2.1, x.2.2 - y.2.2))

instance : HSub (List (List Bnd)) (List (List Bnd)) (List (List Bnd)) :=
  ⟨fun a b => List.zipWith (fun r s => List.zipWith subBnd r s) a b⟩

/-- one axis of a basic-slice assignment `target[t0:t1] = source[s0:s1]` -/
def planOf (tn sn : Nat) (t s : Int × Int) : SlicePlan :=
  ⟨(pySliceN tn t.1 t.2).1, (pySliceN tn t.1 t.2).2, (pySliceN sn s.1 s.2).1, (pySliceN sn s.1 s.2).2⟩

/-- `patches[i, j, :, a0:a1, b0:b1] = pixels[:, c0:c1, d0:d1]` on an array carried with the error of an earlier
assignment: IndexError for `i`, `j` out of range, ValueError when the block does not broadcast -/
def assignPatch (dflt : α) (P : Except Err (NDArr α)) (i j : Nat) (a b : Int × Int) (X : NDArr α) (c d : Int × Int) :
    Except Err (NDArr α) :=
  match P with
  | .error e => .error e
  | .ok P =>
    match P.shape, X.shape with
    | [n, k, C, ph, pw], [C', H, W] =>
      if ¬(i < n ∧ j < k) then .error .index
      else
        let pr := planOf ph H a c
        let pc := planOf pw W b d
        if (C' == C || C' == 1) && pr.ok && pc.ok then
          .ok (ofFn P.shape fun idx =>
            match idx with
            | [i', j', ch, r, q] =>
              if i' = i ∧ j' = j ∧ pr.covers r = true ∧ pc.covers q = true then
                X.getD [if C' == 1 then 0 else ch, pr.src r, pc.src q] dflt
              else P.getD idx dflt
            | _ => dflt)
        else .error .value
    | _, _ => .error .value

/-- `v[i]` of a sub-array (IndexError out of range) -/
def viewAt (v : NDArr α) (i : Nat) : Except Err (NDArr α) :=
  if i < v.shape.headD 0 then .ok (v.row i) else .error .index

/-- `pixels[:, r0:r1, c0:c1] = patch` on an array carried with the error of an earlier assignment -/
def assignWindow (dflt : α) (X : Except Err (NDArr α)) (rs cs : Int × Int) (patch : Except Err (NDArr α)) :
    Except Err (NDArr α) :=
  match X with
  | .error e => .error e
  | .ok X =>
    match patch with
    | .error e => .error e
    | .ok p =>
      match p.shape, X.shape with
      | [C', ph, pw], [C, H, W] =>
        let r := pySliceN H rs.1 rs.2
        let c := pySliceN W cs.1 cs.2
        if (C' == C || C' == 1) && (ph == r.2 - r.1 || ph == 1) && (pw == c.2 - c.1 || pw == 1) then
          .ok (ofFn [C, H, W] fun idx =>
            match idx with
            | [ch, y, x] =>
              if decide (r.1 ≤ y) && decide (y < r.2) && decide (c.1 ≤ x) && decide (x < c.2) then
                p.getD [if C' == 1 then 0 else ch, if ph == 1 then 0 else y - r.1, if pw == 1 then 0 else x - c.1] dflt
              else X.getD idx dflt
            | _ => dflt)
        else .error .value
      | _, _ => .error .value

/-- `np.linspace(a, b, num=n, endpoint=False)` -/
def linspaceOpen (a b : Rat) (n : Nat) : List Rat := (List.range n).map fun (i : Nat) => a + (i : Rat) * ((b - a) / (n : Rat))
/-- `np.meshgrid(x, y, indexing='ij')` -/
def meshgridIJ (x y : List Rat) : List (List Rat) × List (List Rat) := (x.map fun a => y.map fun _ => a, x.map fun _ => y)
/-- `np.stack(grids, axis=2).reshape([-1, 2])`: the grid points in C order -/
def stackPoints (g : List (List Rat) × List (List Rat)) : List Pt := (List.zipWith List.zip g.1 g.2).flatten
/-- `patch[:, None, :] + centres`: shape `(P, n, 2)` -/
def outerAdd (p c : List Pt) : NDArr Pt := ⟨[p.length, c.length], p.flatMap fun a => c.map fun b => a + b⟩
/-- `points[:, :, None, :] + offsets`: shape `(P, n, k, 2)` -/
def outerAdd3 (x : NDArr Pt) (o : Option (List Pt)) : NDArr Pt :=
  ⟨x.shape ++ [(o.getD []).length], x.data.flatMap fun a => (o.getD []).map fun b => a + b⟩
/-- `.reshape([-1, 2])` -/
def flatPoints (x : NDArr Pt) : List Pt := x.data
/-- `scipy_interpolation(pixels, points, order, mode, cval)`: a `(C, N)` array, channel by channel -/
def sampleAll (sample : Nat → Pt → α) (pixels : NDArr α) (pts : List Pt) : NDArr α :=
  ⟨[pixels.shape.headD 0, pts.length], (List.range (pixels.shape.headD 0)).flatMap fun c => pts.map (sample c)⟩
/-- `.reshape(shape)` (ValueError on a size mismatch) -/
def reshapeE (a : NDArr α) (s : List Nat) : Except Err (NDArr α) :=
  match reshape a s with
  | none => .error .value
  | some b => .ok b
/-- `np.transpose(a, [3, 4, 0, 1, 2])` of a 5-dimensional array -/
def transpose34012 (dflt : α) (a : NDArr α) : NDArr α :=
  match a.shape with
  | [c, h, w, n, k] => ofFn [n, k, c, h, w] fun idx =>
      match idx with
      | [i, j, ch, r, q] => a.getD [ch, r, q, i, j] dflt
      | _ => dflt
  | _ => a
end Np

/-! ## Part 2 — the mirrors: the translated functions written by hand over the vocabulary, in the shape of the source -/

variable {α : Type}

/-- `Image.constrain_points_to_bounds` (menpo/image/base.py) -/
def constrainPointsToBounds (pix : NDArr α) (points : List Int) : List Int :=
  let bounded := V.maskFill points (V.ltZero points) 0
  let shape := V.ofNat (Img.shape pix)
  let over := V.ltZero (V.sub shape bounded)
  V.maskAssign bounded over shape

/-- `Image.crop` (menpo/image/base.py): floor / ceil, the two ValueErrors, the bounded copies, the raise-or-clip
decision, the translation warp and the final block copy into the warped image -/
def crop (pix : NDArr α) (lms : List (List Rat)) (zero : α) (minIndices maxIndices : List Rat)
    (constrainToBoundary returnTransform : Bool) : Except Err (Img α) :=
  let mn := V.floor minIndices
  let mx := V.ceil maxIndices
  if !((mn.length == mx.length) && (mx.length == Img.nDims pix)) then .error .value
  else if !(V.allGt mx mn) then .error .value
  else
    let minB := constrainPointsToBounds pix mn
    let maxB := constrainPointsToBounds pix mx
    if !(constrainToBoundary || (V.allEq minB mn && V.allEq maxB mx)) then .error .boundary
    else
      let result := Img.warpTranslate0 zero pix lms (V.sub maxB minB) minB
      let blk := (List.zip (V.asInt minB) (V.asInt maxB)).map fun p => ((p.1 : Int), (p.2 : Int))
      (Img.assignAll result (Img.block zero pix blk)).bind fun cropped => .ok cropped

/-- `PointCloud.bounds` (menpo/shape/pointcloud.py) -/
def pcBounds (pts : List (List Rat)) (boundary : Rat) : Except Err (List Rat × List Rat) :=
  (Pc.colMin pts).bind fun mn => (Pc.colMax pts).bind fun mx => .ok (mn - boundary, mx + boundary)

/-- `PointCloud.range` -/
def pcRange (pts : List (List Rat)) (boundary : Rat) : Except Err (List Rat) :=
  (pcBounds pts boundary).bind fun b => .ok (b.2 - b.1)

/-- `Image.crop_to_pointcloud` -/
def cropToPointcloud (pix : NDArr α) (lms : List (List Rat)) (zero : α) (pointcloud : List (List Rat)) (boundary : Rat)
    (constrainToBoundary returnTransform : Bool) : Except Err (Img α) :=
  (pcBounds pointcloud boundary).bind fun b => crop pix lms zero b.1 b.2 constrainToBoundary returnTransform

/-- `Image.crop_to_landmarks` -/
def cropToLandmarks (pix : NDArr α) (lms : List (List Rat)) (zero : α) (boundary : Rat)
    (constrainToBoundary returnTransform : Bool) : Except Err (Img α) :=
  cropToPointcloud pix lms zero lms boundary constrainToBoundary returnTransform

/-- `Image.crop_to_pointcloud_proportion` -/
def cropToPointcloudProportion (pix : NDArr α) (lms : List (List Rat)) (zero : α) (pointcloud : List (List Rat))
    (boundaryProportion : Rat) (minimum constrainToBoundary returnTransform : Bool) : Except Err (Img α) :=
  if minimum then
    (pcRange pointcloud 0).bind fun r => (V.minE r).bind fun m =>
      cropToPointcloud pix lms zero pointcloud (boundaryProportion * m) constrainToBoundary returnTransform
  else
    (pcRange pointcloud 0).bind fun r => (V.maxE r).bind fun m =>
      cropToPointcloud pix lms zero pointcloud (boundaryProportion * m) constrainToBoundary returnTransform

/-- `Image.crop_to_landmarks_proportion` -/
def cropToLandmarksProportion (pix : NDArr α) (lms : List (List Rat)) (zero : α) (boundaryProportion : Rat)
    (minimum constrainToBoundary returnTransform : Bool) : Except Err (Img α) :=
  cropToPointcloudProportion pix lms zero lms boundaryProportion minimum constrainToBoundary returnTransform

/-- `BooleanImage.true_indices` (menpo/image/boolean.py) -/
def trueIndices (mask : NDArr Bool) : List (List Nat) :=
  if Mask.allTrue mask then Mask.allIndices mask else Mask.nonzeroIndices mask

/-- `BooleanImage.bounds_true` -/
def boundsTrue (mask : NDArr Bool) (boundary : Int) (constrainToBounds : Bool) : Except Err (List Int × List Int) :=
  (Pc.colMaxZ (trueIndices mask)).bind fun mx => (Pc.colMinZ (trueIndices mask)).bind fun mn =>
    if constrainToBounds then
      .ok (constrainPointsToBounds mask (mn - boundary), constrainPointsToBounds mask (mx + boundary))
    else .ok (mn - boundary, mx + boundary)

/-- `MaskedImage.crop_to_true_mask` (menpo/image/masked.py) -/
def cropToTrueMask (pix : NDArr α) (lms : List (List Rat)) (zero : α) (mask : NDArr Bool) (boundary : Int)
    (constrainToBoundary returnTransform : Bool) : Except Err (Img α) :=
  (boundsTrue mask boundary false).bind fun b =>
    crop pix lms zero (V.toRat b.1) (V.toRat b.2) constrainToBoundary returnTransform

/-- `_centered_patch` (menpo/image/patches.py) -/
def centeredPatch (patchShape : Nat × Nat) : Except Err (List Pt) :=
  if Np.len2 patchShape == 2 then
    .ok (Np.stackPoints (Np.meshgridIJ
          (Np.linspaceOpen (-(Np.tdiv patchShape.1 2)) (Np.tdiv patchShape.1 2) patchShape.1)
          (Np.linspaceOpen (-(Np.tdiv patchShape.2 2)) (Np.tdiv patchShape.2 2) patchShape.2))
        + Np.halfPixel patchShape)
  else .error .value

/-- `extract_patches_by_sampling`: the grid, its broadcast against centres (and offsets), the flattening, the
sampler, the reshape to `(C, ph, pw, n, k)` and the transposition -/
def extractPatchesBySampling (pixels : NDArr α) (patchCenters : List Pt) (patchShape : Nat × Nat)
    (offsets : Option (List Pt)) (sampler : Nat → Mode → Nat → Pt → α) (order : Nat) (mode : Mode) (cval : α) :
    Except Err (NDArr α) :=
  if Np.ndim pixels != 3 then .error .value
  else
    (centeredPatch patchShape).bind fun patch =>
      let pts := if !offsets.isNone then Np.flatPoints (Np.outerAdd3 (Np.outerAdd patch patchCenters) offsets)
                 else Np.flatPoints (Np.outerAdd patch patchCenters)
      let nOffsets := if !offsets.isNone then Np.len0 offsets else 1
      (Np.reshapeE (Np.sampleAll (sampler order mode) pixels pts)
          [Np.len0 pixels, patchShape.1, patchShape.2, Np.len0 patchCenters, nOffsets]).bind fun patches =>
        .ok (Np.transpose34012 cval patches)

/-- the assignment in the inner loop of `extract_patches_with_slice`: the two slice pairs built from
`pix_b` / `patch_b`, then `patches[i, j, :, patch_slice] = pixels[:, pix_slice]` -/
def sliceStep (pixels : NDArr α) (patchShape : Nat × Nat) (cval : α) (i : Nat)
    (patches : Except Err (NDArr α)) (it : Nat × Bnd × Bnd) : Except Err (NDArr α) :=
  let pixB := it.2.1
  let patchB := it.2.2
  Np.assignPatch cval patches i it.1
    ((patchB.1.1 : Int), ((patchShape.1 + patchB.2.1 : Int))) ((patchB.1.2 : Int), ((patchShape.2 + patchB.2.2 : Int)))
    pixels ((pixB.1.1 : Int), (pixB.2.1 : Int)) ((pixB.1.2 : Int), (pixB.2.2 : Int))

/-- the two nested loops of `extract_patches_with_slice` -/
def sliceLoops (pixels : NDArr α) (patchShape : Nat × Nat) (cval : α) (init : Except Err (NDArr α))
    (pixelBounds patchBounds : List (List Bnd)) : Except Err (NDArr α) :=
  Py.forLoop init (Np.enumerate (List.zip pixelBounds patchBounds)) fun patches it =>
    Py.forLoop patches (Np.enumerate (List.zip it.2.1 it.2.2)) (sliceStep pixels patchShape cval it.1)

/-- `extract_patches_with_slice` -/
def extractPatchesWithSlice (pixels : NDArr α) (patchCenters : List Pt) (patchShape : Nat × Nat)
    (offsets : Option (List Pt)) (cval : α) : Except Err (NDArr α) :=
  if Np.ndim pixels != 3 then .error .value
  else
    let nOffsets := if !offsets.isNone then Np.len0 offsets else 1
    let corners : Pt × Pt := ((-(Np.tdiv patchShape.1 2), -(Np.tdiv patchShape.2 2)),
                              (Np.tdiv patchShape.1 2, Np.tdiv patchShape.2 2))
    let offsets' := if offsets.isNone then some [((0 : Rat), (0 : Rat))] else offsets
    let init := Except.ok (full [Np.len0 patchCenters, nOffsets, Np.len0 pixels, patchShape.1, patchShape.2] cval)
    let bounds := Np.highFromLow
      (Np.roundBounds (Np.cornerGrid (patchCenters + Np.halfPixel patchShape) offsets' corners)) patchShape
    let pixelBounds := Np.clipBounds bounds (Np.spatial pixels)
    sliceLoops pixels patchShape cval init pixelBounds (pixelBounds - bounds)

/-- one iteration of the loop of `set_patches` (menpo/image/patches.py) -/
def setStep (dflt : α) (patchShape : Nat × Nat) (offset : Int × Int) (offsetIndex : Nat)
    (pixels : Except Err (NDArr α)) (it : NDArr α × Pt) : Except Err (NDArr α) :=
  let lr := Np.fdiv patchShape.1 2
  let lc := Np.fdiv patchShape.2 2
  let hr := lr + Np.pmod patchShape.1 2
  let hc := lc + Np.pmod patchShape.2 2
  let p := Np.roundPt (it.2 + Np.toPt offset)
  Np.assignWindow dflt pixels (p.1 - lr, p.1 + hr) (p.2 - lc, p.2 + hc) (Np.viewAt it.1 offsetIndex)

/-- `set_patches(patches, pixels, patch_centers, offset, offset_index)`; the pixel array is carried with the error
of an earlier in-place assignment -/
def setPatches (dflt : α) (patches : NDArr α) (pixels : Except Err (NDArr α)) (patchCenters : List Pt)
    (offset : Int × Int) (offsetIndex : Nat) : Except Err (NDArr α) :=
  if Np.ndimE pixels != 3 then .error .value
  else
    Py.forLoop pixels (List.zip (Np.iter patches) patchCenters)
      (setStep dflt (Np.last2 patches) offset offsetIndex)

/-! ### the public patch entry points of `Image` (menpo/image/base.py) -/

/-- the `offset` argument of `Image.set_patches`: a tuple (or list) of two integers, or an integer array -/
inductive OffArg
  | tuple (a b : Int)
  | arr (shape : List Nat) (data : List Int)
deriving Repr, DecidableEq

namespace OffArg
/-- `isinstance(offset, tuple)` (a list of two integers is the same argument) -/
def isTuple : Option OffArg → Bool
  | some (.tuple _ _) => true
  | _ => false
def isList (_ : Option OffArg) : Bool := false
/-- `np.asarray([offset])` -/
def asRow : Option OffArg → Option OffArg
  | some (.tuple a b) => some (.arr [1, 2] [a, b])
  | some (.arr s d) => some (.arr (1 :: s) d)
  | none => none
/-- `offset.shape == (1, 2)` -/
def shapeIs12 : Option OffArg → Bool
  | some (.arr [1, 2] _) => true
  | _ => false
/-- the two integers of a `(1, 2)` offset array -/
def toPair : Option OffArg → Int × Int
  | some (.arr _ [a, b]) => (a, b)
  | _ => (0, 0)
end OffArg

/-- what `Image.extract_patches` returns: one array (`as_single_array=True`) or a list of patch images -/
inductive PatchesOut (α : Type)
  | single (a : NDArr α)
  | list (l : List (NDArr α))

class ToPatchesOut (τ : Type) (α : outParam Type) where
  of : τ → PatchesOut α
instance : ToPatchesOut (NDArr α) α := ⟨.single⟩
instance : ToPatchesOut (List (NDArr α)) α := ⟨.list⟩
def PatchesOut.of {τ : Type} [ToPatchesOut τ α] (x : τ) : PatchesOut α := ToPatchesOut.of x

/-- `Image.extract_patches`: the 2-D check, the dispatch on `order` / `mode` between the slicing and the sampling
path, and the two return formats -/
def extractPatches (pix : NDArr α) (sampler : Nat → Mode → Nat → Pt → α) (patchCenters : List Pt) (patchShape : Nat × Nat)
    (sampleOffsets : Option (List Pt)) (asSingleArray : Bool) (order : Nat) (mode : Mode) (cval : α) :
    Except Err (PatchesOut α) :=
  if Img.nDims pix != 2 then .error .value
  else if order == 0 && mode == Mode.constant then
    (extractPatchesWithSlice pix patchCenters patchShape sampleOffsets cval).bind fun a =>
      if asSingleArray then .ok (.single a)
      else .ok (.list ((Np.iter a).flatMap fun p => (Np.iter p).flatMap fun o => [o]))
  else
    (extractPatchesBySampling pix patchCenters patchShape sampleOffsets sampler order mode cval).bind fun a =>
      if asSingleArray then .ok (.single a)
      else .ok (.list ((Np.iter a).flatMap fun p => (Np.iter p).flatMap fun o => [o]))

/-- `Image.extract_patches_around_landmarks`: forwards neither `order`, `mode` nor `cval` -/
def extractPatchesAroundLandmarks (pix : NDArr α) (sampler : Nat → Mode → Nat → Pt → α) (lms : List Pt) (zero : α)
    (patchShape : Nat × Nat) (sampleOffsets : Option (List Pt)) (asSingleArray : Bool) : Except Err (PatchesOut α) :=
  extractPatches pix sampler lms patchShape sampleOffsets asSingleArray 0 Mode.constant zero

/-- `int(len(patches_list) / n_center)`: ZeroDivisionError for no centres -/
def Np.intDivE (a b : Nat) : Except Err Nat := if b = 0 then .error .zerodiv else .ok (a / b)

/-! a list of patch images (each its pixel array): the attributes of the first entry (IndexError on an empty list) -/
/-! a patch image (its pixel array): `.n_channels`, `.height`, `.width` -/
namespace PImg
def nChannels (p : NDArr α) : Nat := p.shape.headD 0
def height (p : NDArr α) : Nat := p.shape.getD (p.shape.length - 2) 0
def width (p : NDArr α) : Nat := p.shape.getD (p.shape.length - 1) 0
end PImg

namespace PList
/-- `patches_list[0]` -/
def head (l : List (NDArr α)) : Except Err (NDArr α) :=
  match l with
  | [] => .error .index
  | p :: _ => .ok p
def nChannels0 (l : List (NDArr α)) : Except Err Nat :=
  match l with
  | [] => .error .index
  | p :: _ => .ok (p.shape.headD 0)
def height0 (l : List (NDArr α)) : Except Err Nat :=
  match l with
  | [] => .error .index
  | p :: _ => .ok (p.shape.getD (p.shape.length - 2) 0)
def width0 (l : List (NDArr α)) : Except Err Nat :=
  match l with
  | [] => .error .index
  | p :: _ => .ok (p.shape.getD (p.shape.length - 1) 0)
end PList

/-- `patches_array[p, o, ...] = patches_list[t].pixels` on an array carried with the error of an earlier assignment:
IndexError for `t`, `p`, `o` out of range, ValueError when the entry has another shape than `patches_array[p, o]`
(numpy's broadcasting of smaller entries is outside the modelled domain) -/
def Np.assignEntry (dflt : α) (A : Except Err (NDArr α)) (p o : Nat) (l : List (NDArr α)) (t : Nat) :
    Except Err (NDArr α) :=
  match A with
  | .error e => .error e
  | .ok A =>
    match l[t]? with
    | none => .error .index
    | some e =>
      match A.shape with
      | n :: k :: rest =>
        if ¬(p < n ∧ o < k) then .error .index
        else if e.shape = rest then
          .ok (ofFn A.shape fun idx =>
            match idx with
            | p' :: o' :: r => if p' = p ∧ o' = o then e.getD r dflt else A.getD idx dflt
            | _ => dflt)
        else .error .value
      | _ => .error .index

/-- one iteration of the inner loop of `_convert_patches_list_to_single_array`: the assignment and the counter -/
def convertStep (dflt : α) (l : List (NDArr α)) (p : Nat) (st : Except Err (NDArr α) × Nat) (o : Nat) :
    Except Err (NDArr α) × Nat :=
  (Np.assignEntry dflt st.1 p o l st.2, st.2 + 1)

/-- `_convert_patches_list_to_single_array(patches_list, n_center)` (menpo/image/base.py) -/
def convertPatchesList (dflt : α) (patchesList : List (NDArr α)) (nCenter : Nat) : Except Err (NDArr α) :=
  (Np.intDivE patchesList.length nCenter).bind fun k =>
    (PList.nChannels0 patchesList).bind fun C =>
      (PList.height0 patchesList).bind fun h =>
        (PList.width0 patchesList).bind fun w =>
          (Py.forLoop ((Except.ok (full [nCenter, k, C, h, w] dflt) : Except Err (NDArr α)), 0) (List.range nCenter)
            fun st p => Py.forLoop st (List.range k) (convertStep dflt patchesList p)).1

/-- the same function with the index of the list entry COMPUTED (`patches_list[p * n_offsets + o]`) instead of
counted by a running `total_index`: an equivalent spelling of the loops (Lemmas/C13Src.lean:
`convertPatchesListIdx_eq`, for all arguments) -/
def convertPatchesListIdx (dflt : α) (patchesList : List (NDArr α)) (nCenter : Nat) : Except Err (NDArr α) :=
  (Np.intDivE patchesList.length nCenter).bind fun k =>
    (PList.nChannels0 patchesList).bind fun C =>
      (PList.height0 patchesList).bind fun h =>
        (PList.width0 patchesList).bind fun w =>
          Py.forLoop (Except.ok (full [nCenter, k, C, h, w] dflt) : Except Err (NDArr α)) (List.range nCenter)
            fun A p => Py.forLoop A (List.range k) fun A o => Np.assignEntry dflt A p o patchesList (p * k + o)

namespace PatchArg
def isList : PatchArg α → Bool
  | .list _ => true
  | .single _ => false
/-- `patches = _convert_patches_list_to_single_array(patches, n)` -/
def convert (dflt : α) (p : PatchArg α) (n : Nat) : Except Err (PatchArg α) :=
  match p with
  | .list l => (convertPatchesList dflt l n).map .single
  | .single a => .ok (.single a)
/-- `set_patches(patches, copy.pixels, centres, offset, offset_index)` of patches.py on the copy's pixel array -/
def setInto (dflt : α) (p : PatchArg α) (c : NDArr α) (centres : List Pt) (offset : Option OffArg)
    (offsetIndex : Option Nat) : Except Err (NDArr α) :=
  match p with
  | .single a => Src.setPatches dflt a (.ok c) centres (OffArg.toPair offset) (offsetIndex.getD 0)
  | .list _ => .error .value
end PatchArg

/-- the tail of `Image.set_patches` once `offset` is an array: shape check, default offset index, list
conversion, copy, `set_patches` -/
def setPatchesTail (dflt : α) (pix : NDArr α) (patches : PatchArg α) (patchCenters : List Pt) (offset : Option OffArg)
    (offsetIndex : Option Nat) : Except Err (NDArr α) :=
  if !(OffArg.shapeIs12 offset) then .error .value
  else
    let oi := if offsetIndex.isNone then some 0 else offsetIndex
    if PatchArg.isList patches then
      (PatchArg.convert dflt patches patchCenters.length).bind fun p =>
        (PatchArg.setInto dflt p pix patchCenters offset oi).bind fun c => .ok c
    else (PatchArg.setInto dflt patches pix patchCenters offset oi).bind fun c => .ok c

/-- `Image.set_patches`: 2-D check, the three spellings of `offset`, then the tail -/
def setPatchesApi (dflt : α) (pix : NDArr α) (patches : PatchArg α) (patchCenters : List Pt) (offset : Option OffArg)
    (offsetIndex : Option Nat) : Except Err (NDArr α) :=
  if Img.nDims pix != 2 then .error .value
  else if offset.isNone then setPatchesTail dflt pix patches patchCenters (some (OffArg.arr [1, 2] [0, 0])) offsetIndex
  else if OffArg.isTuple offset || OffArg.isList offset then
    setPatchesTail dflt pix patches patchCenters (OffArg.asRow offset) offsetIndex
  else setPatchesTail dflt pix patches patchCenters offset offsetIndex

/-- `Image.set_patches_around_landmarks` -/
def setPatchesAroundLandmarks (dflt : α) (pix : NDArr α) (lms : List Pt) (patches : PatchArg α) (offset : Option OffArg)
    (offsetIndex : Option Nat) : Except Err (NDArr α) :=
  setPatchesApi dflt pix patches lms offset offsetIndex

end MenpoModel.C13.Src
