/-
C16 — the part of the vocabulary of the translated export plumbing that touches the file system, and the
SPECIFICATIONS the translated functions are proved equal to (`GenProps/C16SrcIO.lean`).

The world is the file system `FSb : Path → Option Blob`.  A `Blob` records what an exporter callable was asked to
write and how (which callable, which `extension=`, through gzip or not, which keyword arguments, and whether the
callable finished).  Opening a file for writing creates / truncates it (`emptyBlob`) — so a failure after the `open`
leaves a truncated file, exactly as in Python.
-/
import MenpoModel.Core.C16Src

namespace MenpoModel.C16
open PyX

structure Blob where
  content : Nat                    -- whose data (abstract)
  ext : OStr                       -- the `extension=` keyword the callable received (`none`: it was handed a path)
  callable : String                -- name of the exporter callable
  gz : Bool                        -- the bytes went through gzip
  kw : List (String × Nat)         -- the other keyword arguments (`protocol`, `fps`, …)
  complete : Bool                  -- the callable returned normally
  deriving DecidableEq, Repr

def emptyBlob : Blob := ⟨0, none, "", false, [], false⟩

abbrev FSb := Path → Option Blob

def FSb.write (fs : FSb) (p : Path) (b : Blob) : FSb := fun q => if q = p then some b else fs q

abbrev IOx := W FSb Exc

/-- the object handed to an exporter -/
structure ExObj where
  content : Nat
  hasNPoints : Bool       -- a shape (`False`: a dictionary of shapes / a `LandmarkManager`)
  exportable : Bool       -- the exporter callable can write it (`False`: the callable raises)
  deriving DecidableEq, Repr

/-- `obj.n_points` -/
def ExObj.nPoints (o : ExObj) : Except Exc Nat := if o.hasNPoints then .ok 0 else .error .attributeError

inductive Opener where
  | plain | gzip
  deriving DecidableEq, Repr

abbrev Kw := List (String × Nat)

/-- `path.exists()` -/
def fpExists (cwd : Path) (p : Fp) : IOx Bool := fun fs => (.ok (fs (p.key cwd)).isSome, fs)

/-- `path.open("wb")`: the file now exists and is empty; the handle knows its name -/
def fpOpenWb (cwd : Path) (p : Fp) : IOx Fp := fun fs =>
  (.ok (.handle ⟨some (p.key cwd), some p.toStr, false⟩), fs.write (p.key cwd) emptyBlob)

/-- `o(str(path), "wb")` for `o` = `open` or `gzip_open` -/
def openWith (cwd : Path) (o : Opener) (p : Fp) : IOx Fp := fun fs =>
  (.ok (.handle ⟨some (p.key cwd), some p.toStr, o == .gzip⟩), fs.write (p.key cwd) emptyBlob)

/-- `export_function(obj, file_handle, extension=extension, **kwargs)` -/
def callExporter (f : Option String) (obj : ExObj) (fh : Fp) (ext : OStr) (kw : Kw) : IOx Unit := fun fs =>
  match f, fh with
  | some c, .handle h =>
    let fs' : FSb := match h.target with
      | some k => fs.write k ⟨obj.content, ext, c, h.gz, kw, obj.exportable⟩
      | none => fs
    (if obj.exportable then .ok () else .error .exporterError, fs')
  | _, _ => (.error .typeError, fs)

/-- `export_function(obj, path, **kwargs)`: the callable opens the path itself (video) -/
def callExporterAt (cwd : Path) (f : Option String) (obj : ExObj) (p : Fp) (kw : Kw) : IOx Unit := fun fs =>
  match f with
  | some c => (if obj.exportable then .ok () else .error .exporterError,
               fs.write (p.key cwd) ⟨obj.content, none, c, false, kw, obj.exportable⟩)
  | none => (.error .typeError, fs)

/-! ## specifications -/

/-- `_validate_filepath(fp, overwrite)` -/
def validateFilepathSpec (env : Env) (cwd : Path) (fp : Fp) (ow : Bool) : IOx Fp := fun fs =>
  let p := normPathSpec env cwd fp
  if (fs (p.key cwd)).isSome ∧ ow = false then (.error .overwriteError, fs) else (.ok p, fs)

/-- `_extension_to_export_function(extension, extensions_map)` -/
def extToFuncSpec (ext : OStr) (m : List (String × String)) : Except Exc (Option String) :=
  match mapGet m ext with
  | some c => .ok (some c)
  | none => .error .valueError

/-- `_validate_and_get_export_func`: the overwrite guard FIRST, then the extension, then the callable; the file system
is only read -/
def validateAndGetSpec (env : Env) (cwd : Path) (fp : Fp) (m : List (String × String)) (ext : OStr) (ow : Bool) :
    IOx (Option String × OStr) := fun fs =>
  let p := normPathSpec env cwd fp.toPath
  if (fs (p.key cwd)).isSome ∧ ow = false then (.error .overwriteError, fs)
  else match parseAndValidateSpec p ext m with
    | .error e => (.error e, fs)
    | .ok e => match extToFuncSpec e m with
      | .error x => (.error x, fs)
      | .ok c => (.ok (c, e), fs)

/-- `_validate_and_get_export_func` without `return_extension` -/
def validateAndGetFSpec (env : Env) (cwd : Path) (fp : Fp) (m : List (String × String)) (ext : OStr) (ow : Bool) :
    IOx (Option String) := (validateAndGetSpec env cwd fp m ext ow).bind fun r => W.pure r.1

/-- the part of `_export` for a file-like object -/
def exportHandleSpec (env : Env) (cwd : Path) (obj : ExObj) (fp : Fp) (m : List (String × String)) (ext : OStr)
    (ow : Bool) (kw : Kw) : IOx Unit := fun fs =>
  match ext with
  | none => (.error .valueError, fs)
  | some _ => match normalizeExt ext with
    | .error x => (.error x, fs)
    | .ok e => match Fp.getName fp with
      | .ok n => match validateAndGetSpec env cwd n.toPath m e ow fs with
        | (.ok r, fs') => callExporter r.1 obj fp e kw fs'
        | (.error x, fs') => (.error x, fs')
      | .error x =>
        if x = .attributeError then
          match extToFuncSpec e m with
          | .ok c => callExporter c obj fp e kw fs
          | .error y => (.error y, fs)
        else (.error x, fs)

/-- `_export(obj, fp, extensions_map, extension, overwrite, exporter_kwargs)`: for a `str` or a `Path` — validate,
then OPEN THE NORMALISED PATH THAT WAS VALIDATED, then call the exporter on the handle -/
def exportSpec (env : Env) (cwd : Path) (obj : ExObj) (fp : Fp) (m : List (String × String)) (ext : OStr) (ow : Bool)
    (kw : Option Kw) : IOx Unit := fun fs =>
  if fp.isStrOrPath then
    match validateAndGetSpec env cwd fp m ext ow fs with
    | (.error x, fs') => (.error x, fs')
    | (.ok r, fs') =>
      match fpOpenWb cwd (normPathSpec env cwd fp.toPath) fs' with
      | (.ok h, fs'') => callExporter r.1 obj h r.2 (kw.getD []) fs''
      | (.error x, fs'') => (.error x, fs'')
  else exportHandleSpec env cwd obj fp m ext ow (kw.getD []) fs

/-- `_export_paths_only` (the video exporter): validate, then hand the callable the normalised path -/
def exportPathsOnlySpec (env : Env) (cwd : Path) (obj : ExObj) (fp : Fp) (m : List (String × String)) (ext : OStr)
    (ow : Bool) (kw : Option Kw) : IOx Unit := fun fs =>
  match validateAndGetSpec env cwd fp m ext ow fs with
  | (.error x, fs') => (.error x, fs')
  | (.ok r, fs') => callExporterAt cwd r.1 obj (normPathSpec env cwd fp.toPath) (kw.getD []) fs'

/-- `export_pickle(obj, fp, overwrite, protocol)` -/
def exportPickleSpec (env : Env) (cwd : Path) (m : List (String × String)) (obj : ExObj) (fp : Fp) (ow : Bool)
    (protocol : Nat) : IOx Unit := fun fs =>
  if fp.isStrOrPath = false then exportSpec env cwd obj fp m (ostr ".pkl") ow (some [("protocol", protocol)]) fs
  else
    match validateFilepathSpec env cwd fp.toPath ow fs with
    | (.error x, fs') => (.error x, fs')
    | (.ok p, fs') => match parseAndValidateSpec p none m with
      | .error x => (.error x, fs')
      | .ok e =>
        match openWith cwd (if strEndsGz e then .gzip else .plain) p fs' with
        | (.ok f, fs'') => exportSpec env cwd obj f m e true (some [("protocol", protocol)]) fs''
        | (.error x, fs'') => (.error x, fs'')

/-- `export_landmark_file(landmarks_object, fp, extension, overwrite)` AS CODED UNTIL THE REPAIR
notes/fixes/C16-landmark-dict-guard-first.diff: the extension is normalised and the dictionary check is made BEFORE the
overwrite guard (which only runs inside `_export`), so a dictionary exported to an existing `x.pts` is refused with a
plain ValueError, not with the OverwriteError the property names -/
def exportLandmarkFileSpecCoded (env : Env) (cwd : Path) (m : List (String × String)) (obj : ExObj) (fp : Fp) (ext : OStr)
    (ow : Bool) : IOx Unit := fun fs =>
  match normalizeExt ext with
  | .error x => (.error x, fs)
  | .ok e =>
    if obj.hasNPoints = false ∧
        ((e.isSome ∧ e ≠ ostr ".ljson") ∨ (fp.isStrOrPath ∧ fp.toPath.suffix ≠ ostr ".ljson")) then
      (.error .valueError, fs)
    else exportSpec env cwd obj fp m e ow none fs

/-- `export_landmark_file` with the guard first (the repaired code): for a str / Path, `_validate_filepath` runs before
anything else -/
def exportLandmarkFileSpec (env : Env) (cwd : Path) (m : List (String × String)) (obj : ExObj) (fp : Fp) (ext : OStr)
    (ow : Bool) : IOx Unit := fun fs =>
  if fp.isStrOrPath then
    match validateFilepathSpec env cwd fp.toPath ow fs with
    | (.error x, fs') => (.error x, fs')
    | (.ok _, fs') => exportLandmarkFileSpecCoded env cwd m obj fp ext ow fs'
  else exportLandmarkFileSpecCoded env cwd m obj fp ext ow fs

/-- the two variants under one name (`guardFirst = true`: the repaired code) -/
def exportLandmarkFileSpecV (guardFirst : Bool) (env : Env) (cwd : Path) (m : List (String × String)) (obj : ExObj)
    (fp : Fp) (ext : OStr) (ow : Bool) : IOx Unit :=
  if guardFirst then exportLandmarkFileSpec env cwd m obj fp ext ow
  else exportLandmarkFileSpecCoded env cwd m obj fp ext ow

/-- `export_image(image, fp, extension, overwrite)` -/
def exportImageSpec (env : Env) (cwd : Path) (m : List (String × String)) (obj : ExObj) (fp : Fp) (ext : OStr)
    (ow : Bool) : IOx Unit := exportSpec env cwd obj fp m ext ow none

/-- `export_video(images, file_path, overwrite, fps, **kwargs)` -/
def exportVideoSpec (env : Env) (cwd : Path) (m : List (String × String)) (obj : ExObj) (fp : Fp) (ow : Bool)
    (fps : Nat) (kwargs : Kw) : IOx Unit := fun fs =>
  match enforcePathsSpec fp with
  | .error x => (.error x, fs)
  | .ok p => exportPathsOnlySpec env cwd obj p m none ow (some (("fps", fps) :: kwargs)) fs

end MenpoModel.C16
