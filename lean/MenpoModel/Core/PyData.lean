/-
CPython container semantics used by several models: integer indexing with
negative indices, and `slice.indices` / `PySlice_AdjustIndices`.
Core Lean only.
-/

namespace MenpoModel.PyData

/-- `l[i]` for a Python int `i` on a sequence of length `len`:
the resolved non-negative index, or `none` (IndexError). -/
def normIndex (len : Nat) (i : Int) : Option Nat :=
  let j := if i < 0 then i + len else i
  if 0 ≤ j ∧ j < len then some j.toNat else none

/-- clamp of a given (non-None) slice bound, as `PySlice_AdjustIndices` does -/
def adjBound (len : Nat) (stepNeg : Bool) (v : Int) : Int :=
  if v < 0 then
    let w := v + len
    if w < 0 then (if stepNeg then -1 else 0) else w
  else if v ≥ len then (if stepNeg then (len : Int) - 1 else len)
  else v

/-- indices `start, start+step, …` (count of them), all as Int -/
def arith (start step : Int) : Nat → List Int
  | 0 => []
  | n+1 => start :: arith (start + step) step n

def sliceStart (start : Option Int) (len : Nat) (neg : Bool) : Int :=
  match start with
  | none => if neg then (len : Int) - 1 else 0
  | some v => adjBound len neg v

def sliceStop (stop : Option Int) (len : Nat) (neg : Bool) : Int :=
  match stop with
  | none => if neg then -1 else (len : Int)
  | some v => adjBound len neg v

def sliceCount (s e st : Int) : Nat :=
  if st < 0 then (if e < s then ((s - e - 1) / (-st)).toNat + 1 else 0)
  else (if s < e then ((e - s - 1) / st).toNat + 1 else 0)

/-- `range(*slice(start, stop, step).indices(len))`; `none` when `step = 0` (ValueError). -/
def sliceIndices (start stop step : Option Int) (len : Nat) : Option (List Nat) :=
  let st := step.getD 1
  if st = 0 then none else
  let neg := decide (st < 0)
  let s := sliceStart start len neg
  let e := sliceStop stop len neg
  some ((arith s st (sliceCount s e st)).map Int.toNat)

end MenpoModel.PyData
