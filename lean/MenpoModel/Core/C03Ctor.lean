/-
C03 — the constructors of the homogeneous family and `init_identity`, as the model the C03 theorems are about
(core Lean only).  Where the operands of a composition come from: which arguments a constructor refuses
(`ValueError` = `Err.shape`), which it accepts without looking (a `Rotation` is never checked for orthogonality, a
scale never for being non-zero), what the accepted object holds.

Transcribed from `Homogeneous.__init__`, `Affine._set_h_matrix` (the checks), `Rotation.__init__` /
`set_rotation_matrix`, `Translation.__init__`, `UniformScale.__init__`, `NonUniformScale.__init__` and the seven
`init_identity`; `GenProps/C03Src.lean` proves each definition equal to the body TRANSLATED FROM THE SOURCE TEXT of the
working tree (`Generated/C03Src.lean`) on every run.  The driver executes these definitions (`ctor`, `ident`), the
harness compares them with the real constructors.
-/
import MenpoModel.Core.C03Src

namespace MenpoModel.C03
open MenpoModel.C03.Src

variable {d : Nat}

/-- `np.allclose(M[-1, :-1], 0) and np.allclose(M[-1, -1], 1)` -/
def bottomClose (M : Mat (d + 1)) : Bool :=
  ((List.finRange d).all fun j => closeTo (M (Fin.last d) j.castSucc) 0) &&
    closeTo (M (Fin.last d) (Fin.last d)) 1

/-- what `Affine._set_h_matrix(value, skip_checks=False)` asks of a square matrix on a fresh object:
2-D or 3-D, bottom row `[0 … 0 1]` up to numpy's default tolerances -/
def affineChecks (M : Mat (d + 1)) : Bool := (d == 2 || d == 3) && bottomClose M

/-- `Homogeneous(M, copy, skip_checks)`, `Affine(M, …)`, `Similarity(M, …)` (`copy` does not change the value).
`Homogeneous` checks nothing; `Affine` and `Similarity` run the checks of `Affine._set_h_matrix` — and nothing else:
a `Similarity` is not checked for being one.  The other classes take other arguments (`TypeError`). -/
def ctorMat (c : HCls) (M : Mat (d + 1)) (skip : Bool) : Except Err (HT d) :=
  match c with
  | .Homogeneous => .ok ⟨c, M⟩
  | .Affine | .Similarity => if skip || affineChecks M then .ok ⟨c, M⟩ else .error .shape
  | _ => .error .noMethod

/-- `Rotation(R, skip_checks)` for a square `R`: identity of one more dimension, then the block is written.  No check
looks at the entries (and the dimension test compares the dimension with itself), so every square matrix of every
size is accepted, with and without `skip_checks`. -/
def ctorRotation (R : Mat d) : HT d := ⟨.Rotation, mkAffine R (zeroVec d)⟩

/-- `Translation(t, skip_checks)`: the matrix goes through the checks of `Affine._set_h_matrix`, which only the
dimension can fail -/
def ctorTranslation (t : Vec d) (skip : Bool) : Except Err (HT d) :=
  if skip || d == 2 || d == 3 then .ok ⟨.Translation, mkAffine (Mat.one d) t⟩ else .error .shape

/-- `UniformScale(s, n, skip_checks)`: only the dimension is checked — a zero factor is accepted -/
def ctorUniformScale (s : Rat) (n : Nat) (skip : Bool) : Except Err (HT n) :=
  if skip || n == 2 || n == 3 then .ok ⟨.UniformScale, mkAffine (scalarMat n s) (zeroVec n)⟩ else .error .shape

/-- `NonUniformScale(v, skip_checks)`: only the number of factors is checked -/
def ctorNonUniformScale (v : Vec d) (skip : Bool) : Except Err (HT d) :=
  if skip || d == 2 || d == 3 then .ok ⟨.NonUniformScale, mkAffine (diagMat v) (zeroVec d)⟩ else .error .shape

/-- `C.init_identity(d)` for each of the twelve classes `C`, by the `init_identity` its MRO supplies:
`Homogeneous(np.eye(d+1))`; `cls(np.eye(d+1), copy=False, skip_checks=True)` for `Affine` and `Similarity` (their
alignment variants inherit it, and their `__init__` takes a source and a target: `TypeError`);
`Rotation(np.eye(d))`, `Translation(np.zeros(d))`, `UniformScale(1, d)`, `NonUniformScale(np.ones(d))` — also when
called on the alignment variant, which therefore hands back a plain `Rotation` / `Translation` / `UniformScale`. -/
def identityOf (c : HCls) (d : Nat) : Except Err (HT d) :=
  match c with
  | .Homogeneous => ctorMat .Homogeneous (Mat.one (d + 1)) false
  | .Affine | .Similarity => ctorMat c (Mat.one (d + 1)) true
  | .AlignmentAffine | .AlignmentSimilarity => .error .noMethod
  | .Rotation | .AlignmentRotation => .ok (ctorRotation (Mat.one d))
  | .Translation | .AlignmentTranslation => ctorTranslation (zeroVec d) false
  | .UniformScale | .AlignmentUniformScale => ctorUniformScale 1 d false
  | .NonUniformScale => ctorNonUniformScale ⟨fun _ => 1⟩ false

/-- `x.as_non_alignment()` of the five alignment classes as the calls they make:
`Affine(self.h_matrix, skip_checks=True)`, `Similarity(self.h_matrix, skip_checks=True)`,
`Rotation(self.rotation_matrix, skip_checks=True)`, `Translation(self.translation_component)`,
`UniformScale(self.scale, self.n_dims)` — the last two with the constructors' checks on.
Theorem `ana_ctor_justified`: in 2-D and 3-D this is `⟨stripCls c, nonAlignmentMatrix c M⟩`, the word the ladder uses. -/
def anaCtor (c : HCls) (M : Mat (d + 1)) : Except Err (HT d) :=
  match c with
  | .AlignmentAffine => ctorMat .Affine M true
  | .AlignmentSimilarity => ctorMat .Similarity M true
  | .AlignmentRotation => .ok (ctorRotation (lin M))
  | .AlignmentTranslation => ctorTranslation (trans M) false
  | .AlignmentUniformScale => ctorUniformScale (M 0 0) d false
  | _ => .error .noMethod

end MenpoModel.C03
