/-
C11 — incremental model updates (menpo.math.decomposition.ipca, PCAVectorModel.increment,
menpo.model.gmrf._increment_multivariate_gaussian_mean/_cov, GMRFVectorModel._increment and the
four `_increment_*_precision`).  Executable model over core `Rat`.  Core Lean only.

Vectors are total functions `Nat → Rat` (index = feature), a data matrix is the list of its rows.
Everything is defined entry by entry from the two sample sums `Σ x_i` and `Σ x_i x_j`, so the
theorems of Props/C11.lean are statements about every entry of every dimension at once.

Library calls that leave ℚ (np.linalg.inv, qr, svd, sqrt) are parameters with a contract in the
theorems; for the *driver* the block inverse is computed exactly by Gauss-Jordan elimination and
self-checked (`A·A⁻¹ = 1`) before it is used, so the executable model is closed.
-/

namespace MenpoModel.C11

abbrev Vec := Nat → Rat
abbrev Mat := Nat → Nat → Rat
/-- a data matrix `(n_samples, n_features)`: the list of its rows -/
abbrev Data := List Vec

/-! ### sample sums, `np.mean(axis=0)`, `np.cov(rowvar=0, bias=b)` -/

def sumC (X : Data) (i : Nat) : Rat := (X.map fun x => x i).sum
def sumCC (X : Data) (i j : Nat) : Rat := (X.map fun x => x i * x j).sum

/-- `np.mean(X, axis=0)` -/
def mean (X : Data) : Vec := fun i => sumC X i / (X.length : Rat)

/-- `X - m` (broadcast over rows) -/
def centre (X : Data) (m : Vec) : Data := X.map fun x i => x i - m i

/-- `X.T.dot(X)` -/
def gram (X : Data) : Mat := fun i j => sumCC X i j

/-- the two bias conventions of `np.cov` / of the increment: normaliser `n - 1 + biasQ b` -/
def biasQ (b : Bool) : Rat := if b then 1 else 0

/-- `np.cov(X, rowvar=0, bias=b)`:  `Σ (x - mean)(x - mean)ᵀ / (n - 1 + b)` -/
def covOf (b : Bool) (X : Data) : Mat := fun i j =>
  gram (centre X (mean X)) i j / ((X.length : Rat) - 1 + biasQ b)

/-! ### `_increment_multivariate_gaussian_mean` / `_cov`, transcribed -/

/-- `(n * m + np.sum(X, axis=0)) / (n + new_n)` -/
def meanUpdate (n : Nat) (m : Vec) (B : Data) : Vec := fun i =>
  ((n : Rat) * m i + sumC B i) / ((n : Rat) + (B.length : Rat))

/-- `new_S = (k S + n m mᵀ + XᵀX − (n + n') m' m'ᵀ) / (k + n')`, `k = n` (bias 1) or `n − 1` (bias 0) -/
def covUpdate (b : Bool) (n : Nat) (m : Vec) (S : Mat) (B : Data) : Mat := fun i j =>
  let k : Rat := if b then (n : Rat) else (n : Rat) - 1
  let m' := meanUpdate n m B
  (k * S i j + (n : Rat) * m i * m j + sumCC B i j
      - ((n : Rat) + (B.length : Rat)) * m' i * m' j) / (k + (B.length : Rat))

/-! ### the GMRF: which columns make up the data of a block -/

inductive Mode | concatenation | subtraction
deriving Repr, DecidableEq

/-- the graph side of a `GMRFVectorModel`: `k = n_features_per_vertex`, `edges = graph.edges` -/
structure GSpec where
  nv : Nat
  k : Nat
  edges : List (Nat × Nat)
  mode : Mode
deriving Repr

/-- `X[:, range(v1*k,(v1+1)*k) + range(v2*k,(v2+1)*k)]` (also applied to `mean_vector`) -/
def featConcat (k v1 v2 : Nat) (x : Vec) : Vec := fun c =>
  if c < k then x (v1 * k + c) else x (v2 * k + (c - k))
/-- `X[:, v1 block] - X[:, v2 block]` (also applied to `mean_vector`) -/
def featSub (k v1 v2 : Nat) (x : Vec) : Vec := fun c => x (v1 * k + c) - x (v2 * k + c)
/-- `X[:, v*k:(v+1)*k]` (edgeless graphs: one block per vertex) -/
def featVertex (k v : Nat) (x : Vec) : Vec := fun c => x (v * k + c)

/-- `GMRFVectorModel.__init__/_increment` pick the per-vertex routines iff `graph.n_edges == 0` -/
def GSpec.diagonal (g : GSpec) : Bool := g.edges.isEmpty
def GSpec.nBlocks (g : GSpec) : Nat := if g.diagonal then g.nv else g.edges.length
def GSpec.blockDim (g : GSpec) : Nat :=
  if g.diagonal then g.k else match g.mode with
    | .concatenation => 2 * g.k
    | .subtraction => g.k

/-- the feature map of block `e` -/
def GSpec.feat (g : GSpec) (e : Nat) : Vec → Vec :=
  if g.diagonal then featVertex g.k e else
    let (v1, v2) := g.edges.getD e (0, 0)
    match g.mode with
    | .concatenation => featConcat g.k v1 v2
    | .subtraction => featSub g.k v1 v2

/-- running state of an incremental GMRF: `n_samples, mean_vector, _covariance_matrices` -/
structure GState where
  n : Nat
  mean : Vec
  cov : Nat → Mat

/-- `GMRFVectorModel.__init__(…, incremental=True)` -/
def gmrfInit (b : Bool) (feat : Nat → Vec → Vec) (X : Data) : GState :=
  ⟨X.length, mean X, fun e => covOf b (X.map (feat e))⟩

/-- `GMRFVectorModel._increment`: every block covariance is updated from the *old* count and the
old mean restricted to the block, then the mean and the count are updated -/
def gmrfInc (b : Bool) (feat : Nat → Vec → Vec) (st : GState) (B : Data) : GState :=
  ⟨st.n + B.length, meanUpdate st.n st.mean B,
   fun e => covUpdate b st.n (feat e st.mean) (st.cov e) (B.map (feat e))⟩

/-- an initial batch followed by increments -/
def gmrfRun (b : Bool) (feat : Nat → Vec → Vec) (X0 : Data) (chunks : List Data) : GState :=
  chunks.foldl (gmrfInc b feat) (gmrfInit b feat X0)

/-! ### dense meaning of the precision matrix assembled from the inverted blocks
(`_create_dense_*` and `_increment_dense_*` store the blocks identically) -/

def addBlock (P : Mat) (r0 c0 k : Nat) (blk : Mat) (br bc : Nat) : Mat := fun i j =>
  if r0 ≤ i ∧ i < r0 + k ∧ c0 ≤ j ∧ j < c0 + k then P i j + blk (i - r0 + br) (j - c0 + bc) else P i j
def setBlock (P : Mat) (r0 c0 k : Nat) (blk : Mat) (br bc : Nat) : Mat := fun i j =>
  if r0 ≤ i ∧ i < r0 + k ∧ c0 ≤ j ∧ j < c0 + k then blk (i - r0 + br) (j - c0 + bc) else P i j
def negM (m : Mat) : Mat := fun i j => - m i j

/-- one edge of the `store it` section of `_increment_dense_precision` -/
def storeEdge (mode : Mode) (k : Nat) (P : Mat) (v1 v2 : Nat) (inv : Mat) : Mat :=
  match mode with
  | .concatenation =>
    let P := addBlock P (v1 * k) (v1 * k) k inv 0 0
    let P := addBlock P (v2 * k) (v2 * k) k inv k k
    let P := setBlock P (v1 * k) (v2 * k) k inv 0 k
    setBlock P (v2 * k) (v1 * k) k inv k 0
  | .subtraction =>
    let P := setBlock P (v1 * k) (v2 * k) k (negM inv) 0 0
    let P := setBlock P (v2 * k) (v1 * k) k (negM inv) 0 0
    let P := addBlock P (v1 * k) (v1 * k) k inv 0 0
    addBlock P (v2 * k) (v2 * k) k inv 0 0

/-- the stored matrix as a function of the inverted blocks `blk e` -/
def precisionOf (g : GSpec) (blk : Nat → Mat) : Mat :=
  if g.diagonal then
    (List.range g.nv).foldl (fun P v => setBlock P (v * g.k) (v * g.k) g.k (blk v) 0 0) (fun _ _ => 0)
  else
    (List.range g.edges.length).foldl (fun P e =>
      let (v1, v2) := g.edges.getD e (0, 0)
      storeEdge g.mode g.k P v1 v2 (blk e)) (fun _ _ => 0)

/-- the precision matrix as a function of the block covariances; `inv` = `_covariance_matrix_inverse` -/
def precision (g : GSpec) (inv : Mat → Mat) (cov : Nat → Mat) : Mat :=
  precisionOf g (fun e => inv (cov e))

/-! ### PCA: the state `(n_samples, mean, eigenvectors, eigenvalues)` seen through its sufficient
statistics `(n, mean, scatter)` with `scatter = (n − 1) · Uᵀ diag(l) U` -/

structure PState where
  n : Nat
  mean : Vec
  scat : Mat

def zeroVec : Vec := fun _ => 0

/-- `pca(X, centre)`: mean (or zeros) and the scatter `(X − m)ᵀ (X − m)` whose eigen-decomposition
divided by `n − 1` the code returns -/
def pcaBatch (centred : Bool) (X : Data) : PState :=
  let m := if centred then mean X else zeroVec
  ⟨X.length, m, gram (centre X m)⟩

/-- the centred branch of `ipca` (forgetting factor 1):  `m = (n_a/n) m_a + (n_b/n) m_b`, the new
data are centred on their own mean and augmented by the pseudo-sample `√(n_a n_b / n) (m_b − m_a)`,
whose contribution to `BᵀB` is the rank-one term below (see `Props.C11.pseudo_sample_gram`) -/
def ipcaCentred (st : PState) (B : Data) : PState :=
  let na : Rat := st.n
  let nb : Rat := B.length
  let n := na + nb
  let mb := mean B
  ⟨st.n + B.length, fun i => na / n * st.mean i + nb / n * mb i,
   fun i j => st.scat i j + gram (centre B mb) i j
                + na * nb / n * ((mb i - st.mean i) * (mb j - st.mean j))⟩

/-- the `else` branch of `ipca`: mean zeros, data used as they are -/
def ipcaUncentred (st : PState) (B : Data) : PState :=
  ⟨st.n + B.length, zeroVec, fun i j => st.scat i j + gram B i j⟩

/-- `PCAVectorModel.increment` (calls `ipca(…, centre=self.centred)`: tied to the live call site by
`GenProps.C11.ipcaCall_ok`) and `ipca` with `centre` given: the branch follows the `centred` flag -/
def ipcaStepSpec (centred : Bool) (st : PState) (B : Data) : PState :=
  if centred then ipcaCentred st B else ipcaUncentred st B

/-- `np.all(m_a == 0)` over the `d` features -/
def allZero (d : Nat) (m : Vec) : Bool := (List.range d).all fun i => m i == 0

/-- `ipca(…, centre=None)` as coded (the public function called directly; also what `increment` did before the
repair `f52ccab`, which now passes `centre=self.centred`): the centred branch is taken iff
`m_a is not None and not np.all(m_a == 0)` — inferred from the mean, no flag is consulted -/
def ipcaStepCoded (d : Nat) (st : PState) (B : Data) : PState :=
  if allZero d st.mean then ipcaUncentred st B else ipcaCentred st B

def pcaRunSpec (centred : Bool) (X0 : Data) (chunks : List Data) : PState :=
  chunks.foldl (ipcaStepSpec centred) (pcaBatch centred X0)
def pcaRunCoded (d : Nat) (centred : Bool) (X0 : Data) (chunks : List Data) : PState :=
  chunks.foldl (ipcaStepCoded d) (pcaBatch centred X0)

/-! ### exact inverse for the driver (Gauss-Jordan over ℚ on `List (List Rat)`), self-checked -/

def ofRows (rows : List (List Rat)) : Mat := fun i j => (rows.getD i []).getD j 0
def toRows (p : Nat) (m : Mat) : List (List Rat) :=
  (List.range p).map fun i => (List.range p).map fun j => m i j
def vecOfList (l : List Rat) : Vec := fun i => l.getD i 0

def rowSub (r s : List Rat) (f : Rat) : List Rat := List.zipWith (fun a b => a - f * b) r s

/-- eliminate column `c` (fuel = remaining columns); rows carry the augmented `[A | I]` -/
def gaussJordan : Nat → Nat → List (List Rat) → Option (List (List Rat))
  | 0, _, rows => some rows
  | fuel + 1, c, rows =>
    -- pivot: first row at or below `c` with a non-zero entry in column `c`
    match (List.range rows.length).find? (fun r => c ≤ r && (rows.getD r []).getD c 0 != 0) with
    | none => none
    | some pr =>
      let prow := rows.getD pr []
      let crow := rows.getD c []
      let rows := (rows.set pr crow).set c prow
      let pv := prow.getD c 0
      let prow := prow.map (· / pv)
      let rows := rows.set c prow
      let rows := (List.range rows.length).map fun r =>
        let row := rows.getD r []
        if r = c then row else rowSub row prow (row.getD c 0)
      gaussJordan fuel (c + 1) rows

def matMulRows (a b : List (List Rat)) (p : Nat) : List (List Rat) :=
  (List.range p).map fun i => (List.range p).map fun j =>
    ((List.range p).map fun t => (a.getD i []).getD t 0 * (b.getD t []).getD j 0).sum

def identityRows (p : Nat) : List (List Rat) :=
  (List.range p).map fun i => (List.range p).map fun j => if i = j then 1 else 0

/-- exact inverse of the leading `p × p` part, `none` when singular; the result is verified -/
def invExact (p : Nat) (m : Mat) : Option (List (List Rat)) :=
  let a := toRows p m
  let aug := (List.range p).map fun i => a.getD i [] ++ (identityRows p).getD i []
  match gaussJordan p 0 aug with
  | none => none
  | some rows =>
    let inv := rows.map (·.drop p)
    if matMulRows a inv p == identityRows p then some inv else none

/-! ### sparse (BSR) storage as coded, and the dense one side by side

`_create_sparse_precision` / `_increment_sparse_precision` emit four `(row, column, block)` triplets per edge and
hand them to `scipy.sparse.bsr_matrix`; entries with the same block coordinates are *summed* when the matrix is
used (`toarray`, `dot`).  The dense routines `+=` the two diagonal blocks but *assign* (`=`) the two off-diagonal
ones (`storeEdge` above).  On graphs where two edges join the same pair of vertices (a `DirectedGraph` holding
`i → j` and `j → i`) the two storages therefore hold different matrices; both are modelled as coded. -/

/-- one edge of the sparse routines: four triplets, duplicates summed -/
def storeEdgeSparse (mode : Mode) (k : Nat) (P : Mat) (v1 v2 : Nat) (inv : Mat) : Mat :=
  match mode with
  | .concatenation =>
    let P := addBlock P (v1 * k) (v1 * k) k inv 0 0
    let P := addBlock P (v2 * k) (v2 * k) k inv k k
    let P := addBlock P (v1 * k) (v2 * k) k inv 0 k
    addBlock P (v2 * k) (v1 * k) k inv k 0
  | .subtraction =>
    let P := addBlock P (v1 * k) (v1 * k) k inv 0 0
    let P := addBlock P (v2 * k) (v2 * k) k inv 0 0
    let P := addBlock P (v1 * k) (v2 * k) k (negM inv) 0 0
    addBlock P (v2 * k) (v1 * k) k (negM inv) 0 0

/-- dense meaning of the BSR matrix built from the inverted blocks `blk e` -/
def precisionOfSparse (g : GSpec) (blk : Nat → Mat) : Mat :=
  if g.diagonal then
    (List.range g.nv).foldl (fun P v => addBlock P (v * g.k) (v * g.k) g.k (blk v) 0 0) (fun _ _ => 0)
  else
    (List.range g.edges.length).foldl (fun P e =>
      let (v1, v2) := g.edges.getD e (0, 0)
      storeEdgeSparse g.mode g.k P v1 v2 (blk e)) (fun _ _ => 0)

/-- the stored precision for either value of the `sparse` flag -/
def precisionStored (sparse : Bool) (g : GSpec) (inv : Mat → Mat) (cov : Nat → Mat) : Mat :=
  if sparse then precisionOfSparse g (fun e => inv (cov e)) else precision g inv cov

/-! ### object level: `GMRFModel` / `PCAModel` on `PointCloud` samples

`as_matrix(samples)` stacks `sample.as_vector()`; for a `PointCloud` with `k` coordinates per point that is
`points.ravel()`; `mean()` is `template.from_vector(mean_vector)`, i.e. `reshape(-1, k)`. -/

/-- `points[p, c]` -/
abbrev Cloud := Nat → Nat → Rat
/-- `PointCloud.as_vector` = `points.ravel()` -/
def asVector (k : Nat) (pc : Cloud) : Vec := fun i => pc (i / k) (i % k)
/-- `PointCloud.from_vector` = `v.reshape(-1, k)` -/
def fromVector (k : Nat) (v : Vec) : Cloud := fun p c => v (p * k + c)
/-- `menpo.math.as_matrix` -/
def asMatrix (k : Nat) (samples : List Cloud) : Data := samples.map (asVector k)

/-- `GMRFModel.__init__(samples, graph, incremental=True)` -/
def gmrfObjInit (b : Bool) (g : GSpec) (samples : List Cloud) : GState :=
  gmrfInit b g.feat (asMatrix g.k samples)
/-- `GMRFModel.increment(samples)` -/
def gmrfObjInc (b : Bool) (g : GSpec) (st : GState) (samples : List Cloud) : GState :=
  gmrfInc b g.feat st (asMatrix g.k samples)
def gmrfObjRun (b : Bool) (g : GSpec) (S0 : List Cloud) (chunks : List (List Cloud)) : GState :=
  chunks.foldl (gmrfObjInc b g) (gmrfObjInit b g S0)
/-- `GMRFModel.mean()` -/
def gmrfObjMean (g : GSpec) (st : GState) : Cloud := fromVector g.k st.mean

/-- `PCAModel.__init__` / `PCAModel.increment` (specified behaviour, branch by the model's `centred` flag) -/
def pcaObjRun (k : Nat) (centred : Bool) (S0 : List Cloud) (chunks : List (List Cloud)) : PState :=
  chunks.foldl (fun st c => ipcaStepSpec centred st (asMatrix k c)) (pcaBatch centred (asMatrix k S0))

/-! ### forgetting factor `f` (`ipca(…, f=…)`, `increment(…, forgetting_factor=…)`), as coded

The model stores eigenvalues `l` (covariance scale) and the integer sample count.  `ipca` rebuilds the singular
values `s_a = √((n_a − 1) l_a)` from the *integer* count, then replaces `n_a` by `f·n_a` for the mean, the
pseudo-sample and the normaliser, scales `S_a` by `f` inside `R` (so the old scatter enters with `f²`), and
returns `l = s̃² / (f n_a + n_b − 1)`; `increment` adds the integer `n_b` to `n_samples`. -/

/-- state in covariance scale: `cov = Uᵀ diag(eigenvalues) U` -/
structure FState where
  n : Nat
  mean : Vec
  cov : Mat

def PState.toF (st : PState) : FState := ⟨st.n, st.mean, fun i j => st.scat i j / ((st.n : Rat) - 1)⟩

def ipcaForget (centred : Bool) (f : Rat) (st : FState) (B : Data) : FState :=
  let sA : Mat := fun i j => ((st.n : Rat) - 1) * st.cov i j
  let na : Rat := f * (st.n : Rat)
  let nb : Rat := B.length
  let n := na + nb
  if centred then
    let mb := mean B
    ⟨st.n + B.length, fun i => na / n * st.mean i + nb / n * mb i,
     fun i j => (f * f * sA i j + gram (centre B mb) i j
                  + na * nb / n * ((mb i - st.mean i) * (mb j - st.mean j))) / (n - 1)⟩
  else
    ⟨st.n + B.length, zeroVec, fun i j => (f * f * sA i j + gram B i j) / (n - 1)⟩

/-- an initial batch followed by increments, each with its own forgetting factor -/
def pcaRunForget (centred : Bool) (X0 : Data) (steps : List (Rat × Data)) : FState :=
  steps.foldl (fun st s => ipcaForget centred s.1 st s.2) (pcaBatch centred X0).toF

/-- weighted statistics: weight `f` on the old samples `X`, weight 1 on the new samples `B` -/
def wmean (f : Rat) (X B : Data) : Vec := fun i =>
  (f * sumC X i + sumC B i) / (f * (X.length : Rat) + (B.length : Rat))
def wscatter (f : Rat) (X B : Data) : Mat := fun i j =>
  f * gram (centre X (wmean f X B)) i j + gram (centre B (wmean f X B)) i j

/-! ### `l = l[l > eps]`, `U[: len(l), :]` on lists (the SVD returns singular values in descending order) -/

/-- default of `ipca`'s `eps` (tied to the live signature by `GenProps/C11.lean`) -/
def defaultEps : Rat := 1 / 10000000000

/-- `l = s̃² / (n − 1)` -/
def ipcaEigs (nm1 : Rat) (s2 : List Rat) : List Rat := s2.map (· / nm1)
/-- `l[l > eps]` -/
def ipcaKeep (eps : Rat) (l : List Rat) : List Rat := l.filter (fun x => decide (eps < x))
/-- the threshold `ipca` discards with since /repo db6ef6e: `max(eps, max(R.shape) · precision · l.max())`, `precision` =
machine epsilon of the least precise floating point operand; never below `eps` -/
def ipcaThr (eps : Rat) (shape : Nat) (prec : Rat) (l : List Rat) : Rat :=
  max eps ((shape : Rat) * prec * l.foldl max (l.headD 0))
/-- `U[: len(l), :]` -/
def ipcaRows {α : Type} (rows : List α) (l : List Rat) : List α := rows.take l.length

/-! ### exact rank (number of non-zero eigenvalues of a symmetric positive semi-definite matrix) -/

def rankAux : List Nat → List (List Rat) → Nat
  | [], _ => 0
  | c :: cs, rows =>
    match rows.find? (fun r => r.getD c 0 != 0) with
    | none => rankAux cs rows
    | some pr =>
      let pv := pr.getD c 0
      let rest := (rows.filter (fun r => r.getD c 0 == 0)) ++
        ((rows.filter (fun r => r.getD c 0 != 0)).drop 1).map (fun r => rowSub r pr (r.getD c 0 / pv))
      rankAux cs rest + 1

/-- rank of the leading `p × p` part -/
def rankExact (p : Nat) (m : Mat) : Nat := rankAux (List.range p) (toRows p m)

/-! ### tables tied to the live code by `GenProps/C11.lean` (regenerated on every run) -/

/-- which module-level routine `GMRFVectorModel.__init__` / `_increment` pick: by `graph.n_edges == 0` and `sparse` -/
def gmrfDispatchOf (edgeless sparse : Bool) : String × String :=
  match edgeless, sparse with
  | true, true => ("_create_sparse_diagonal_precision", "_increment_sparse_diagonal_precision")
  | true, false => ("_create_dense_diagonal_precision", "_increment_dense_diagonal_precision")
  | false, true => ("_create_sparse_precision", "_increment_sparse_precision")
  | false, false => ("_create_dense_precision", "_increment_dense_precision")

def expectedGmrfDispatch : List (Bool × Bool × String × String) :=
  [true, false].flatMap fun e => [true, false].map fun s => (e, s, (gmrfDispatchOf e s).1, (gmrfDispatchOf e s).2)

/-- how `PCAVectorModel.increment` calls `ipca`: positional arguments after the data matrix, then keywords (no
`eps`: the default applies; `centre` is the model's flag, which is what `ipcaStepSpec` follows) -/
def expectedIpcaCall : List (String × String) :=
  [("1", "self._components"), ("2", "self._eigenvalues"), ("3", "self.n_samples"),
   ("m_a", "self._mean"), ("f", "forgetting_factor"), ("centre", "self.centred")]

/-- `GMRFVectorModel.__init__` defaults the model's configuration space starts from -/
def expectedGmrfDefaults : List (String × String) :=
  [("mode", "'concatenation'"), ("n_components", "None"), ("sparse", "True"), ("bias", "0"), ("incremental", "False")]


end MenpoModel.C11
