/-
C04 — the VOCABULARY of the source-to-Lean translation of menpo's pseudoinverse code (Mathlib-free).

`harness/trans_c04.py` (on top of `harness/py2lean2.py`) reads the SOURCE TEXT of the pseudoinverse methods, of the
constructors and properties they call, of the spline / piecewise-affine constructors and of `tcoords.py` from the working
tree on every run and rewrites each function, statement by statement, into a Lean definition over the words defined here
(`Generated/C04Src.lean`).  `GenProps/C04Src.lean` proves every translated definition equal to the hand-written Core
definition the C04 theorems are about (`pinv`, `pinvH`, `ofAffine`, `TPS.pinvFixed`, `PWAMesh.pinv`, `tcoordsToImage`,
`Tri.ab`, `piece`, `applyH`, …), for all arguments.

What a word stands for:

* numpy array statements on an `h_matrix` of shape `(d+1, d+1)`:  `np.eye(n)`, `h[:-1, -1] = t`, `h[:-1, :-1] = L`,
  `np.fill_diagonal(h, s)` (scalar; vector of length `d`: numpy CYCLES the values, so the corner receives `v[0]` — which
  is why the constructors reset it with `h[-1, -1] = 1`), `h.diagonal()[:-1]`, `-v`, `1.0 / v`.
* objects: a family object is `HT d α` (class, `_h_matrix`, `_source/_target`); `cls.__new__(cls)` is `HT.blank cls`;
  `new.__dict__ = old.__dict__.copy()` is `HT.withDictOf`; `_source` / `_target` are read and written one at a time.
* method resolution: `Sup` (the classes that can supply a method) and `Meth` (the methods the translated bodies call);
  the table `supOf : Cls → Meth → Sup` is REGENERATED from the live MRO and must equal `expectedSupOf`.
* thin plate splines: `TPSObj` (source, target, the kernel OBJECT — class and centres —, `min_singular_val`, the system
  matrix `l` as assembled by `__init__`);  piecewise affine: `PWAObj` over `ShapeObj` (points plus the trilist a mesh
  carries; `TriMesh(points)` without a trilist triangulates: Delaunay, a parameter).
-/
import MenpoModel.Core.C04Ops
import MenpoModel.Core.C04Mesh

namespace MenpoModel.C04

/-! ## numpy statements on homogeneous matrices -/

/-- `np.eye(n)` -/
def npEye (n : Nat) : Mat n := Mat.one

/-- `H[:-1, -1] = t` -/
def setTransCol {d : Nat} (H : Mat (d + 1)) (t : Vec d) : Mat (d + 1) := fun i j =>
  if hi : i.val < d then (if j.val < d then H i j else t ⟨i.val, hi⟩) else H i j

/-- `H[:-1, :-1] = L` -/
def setLin {d : Nat} (H : Mat (d + 1)) (L : Mat d) : Mat (d + 1) := fun i j =>
  if hi : i.val < d then (if hj : j.val < d then L ⟨i.val, hi⟩ ⟨j.val, hj⟩ else H i j) else H i j

/-- `np.fill_diagonal(H, s)` for a scalar `s` -/
def fillDiag {n : Nat} (H : Mat n) (s : Rat) : Mat n := fun i j => if i = j then s else H i j

/-- `np.fill_diagonal(H, v)` for a vector of length `d` on a `(d+1)²` matrix: numpy repeats the values as often as
needed, so the last diagonal entry receives `v[d mod d] = v[0]` -/
def fillDiagVec {d : Nat} (H : Mat (d + 1)) (v : Vec d) : Mat (d + 1) := fun i j =>
  if i = j then
    (if hi : i.val < d then v ⟨i.val, hi⟩ else if h0 : 0 < d then v ⟨0, h0⟩ else H i j)
  else H i j

/-- `H[-1, -1] = x` -/
def setCorner {d : Nat} (H : Mat (d + 1)) (x : Rat) : Mat (d + 1) := fun i j =>
  if i.val = d ∧ j.val = d then x else H i j

/-- `H.diagonal()[:-1]` -/
def diagHead {d : Nat} (H : Mat (d + 1)) : Vec d := fun i => H i.castSucc i.castSucc

/-- `-v` -/
def vneg {d : Nat} (v : Vec d) : Vec d := fun i => - v i

/-- `1.0 / v` -/
def vrecip {d : Nat} (v : Vec d) : Vec d := fun i => 1 / v i

/-- `h_matrix.shape[1]` / `.shape[0]` of an `n × n` array -/
def shapeOf {n : Nat} (_ : Mat n) : Nat := n

/-! ## family objects at the level the source speaks about them -/

/-- `cls.__new__(cls)`: an object of the class with no attribute set yet -/
def HT.blank {d : Nat} {α : Type} (c : Cls) : HT d α := ⟨c, fun _ _ => 0, none⟩

/-- `new.__dict__ = old.__dict__.copy()`: every instance attribute of `old`, the class of `new` -/
def HT.withDictOf {d : Nat} {α : Type} (new old : HT d α) : HT d α := ⟨new.cls, old.h, old.ends⟩

/-- `self._h_matrix = M` -/
def HT.setH {d : Nat} {α : Type} (t : HT d α) (M : Mat (d + 1)) : HT d α := { t with h := M }

/-- `self._source` / `self._target` (an object that is no alignment has neither) -/
def HT.source {d : Nat} {α : Type} (t : HT d α) : Option α := t.ends.map Prod.fst
def HT.target {d : Nat} {α : Type} (t : HT d α) : Option α := t.ends.map Prod.snd

/-- `self._source = v` / `self._target = v` -/
def HT.setSource {d : Nat} {α : Type} (t : HT d α) (v : Option α) : HT d α :=
  { t with ends := match v, t.ends with
      | some v, some e => some (v, e.2)
      | _, e => e }
def HT.setTarget {d : Nat} {α : Type} (t : HT d α) (v : Option α) : HT d α :=
  { t with ends := match v, t.ends with
      | some v, some e => some (e.1, v)
      | _, e => e }

/-- the shape every well-formed object has: only alignments carry end points -/
def HT.WF {d : Nat} {α : Type} (t : HT d α) : Prop := t.cls.isAlignment = false → t.ends = none

/-- `a.compose_before(b)` for two members the class ladder sends to `Homogeneous` (C03's subject: both `Homogeneous`, or
`Homogeneous` with a scale): a `Homogeneous` carrying `b.h · a.h` -/
def HT.composeBeforeH {d : Nat} {α : Type} (a b : HT d α) : HT d α := ⟨.homogeneous, b.h.mul a.h, none⟩

/-- the `Scale(v)` factory on a vector of non-zero factors: a (non-)uniform scale with matrix `diag(v, 1)` (which of the
two classes is C20's subject; the matrices agree whenever the factors are equal) -/
def scaleFactory {d : Nat} {α : Type} (v : Vec d) : HT d α := ⟨.nonUniformScale, ofAffine (diagM v) fun _ => 0, none⟩

/-- `np.array(image_shape)` and `v - 1`, the two steps of `np.array(image_shape) - 1` -/
def shapeVec (s : Rat × Rat) : Vec 2 := fun i => if i.val = 0 then s.1 else s.2
def vsubOne {d : Nat} (v : Vec d) : Vec d := fun i => v i - 1

/-- `np.array(image_shape) - 1` -/
def shapeMinusOne (s : Rat × Rat) : Vec 2 := fun i => if i.val = 0 then s.1 - 1 else s.2 - 1

/-! ## method resolution -/

/-- the classes that (can) supply the methods the translated bodies call; `other` = a class the vocabulary has no
name for (its body is then not translated and the obligations break) -/
inductive Sup where
  | Homogeneous | Affine | Similarity | Rotation | Translation | UniformScale | NonUniformScale | DiscreteAffine
  | HomogFamilyAlignment | AlignmentAffine | AlignmentSimilarity | AlignmentRotation | AlignmentTranslation
  | AlignmentUniformScale | Alignment | Invertible | VInvertible | Copyable | Vectorizable | Transform | Targetable
  | missing
  | other (name : String)
  deriving DecidableEq, Repr

/-- the methods / properties the translated bodies call on `self` (dynamic dispatch) -/
inductive Meth where
  | pseudoinverse | hMatrixPseudoinverse | hasTrueInverse | pseudoinverseVector
  | init | setHMatrix | setRotationMatrix | copy
  | hMatrix | nDims | scale | translationComponent | linearComponent | rotationMatrix
  deriving DecidableEq, Repr

def Meth.all : List Meth :=
  [.pseudoinverse, .hMatrixPseudoinverse, .hasTrueInverse, .pseudoinverseVector, .init, .setHMatrix,
   .setRotationMatrix, .copy, .hMatrix, .nDims, .scale, .translationComponent, .linearComponent, .rotationMatrix]

/-- the body registered for the supplier the table names -/
def callM {β : Type} : List (Sup × β) → Sup → Option β
  | [], _ => none
  | (k, b) :: rest, s => if k = s then some b else callM rest s

/-- THE METHOD TABLE the translated bodies are assembled with, as the model expects it (regenerated from the live MRO
on every run and compared: `GenProps/C04Src.lean: supOf_ok`) -/
def expectedSupOf : Cls → Meth → Sup
  -- pseudoinverse: `implOf`
  | c, .pseudoinverse =>
    match implOf c with
    | .homogeneous => .Homogeneous | .homogFamilyAlignment => .HomogFamilyAlignment | .translation => .Translation
    | .uniformScale => .UniformScale | .nonUniformScale => .NonUniformScale | .rotation => .Rotation
  | _, .hMatrixPseudoinverse => .Homogeneous
  | _, .hasTrueInverse => .Homogeneous
  | _, .pseudoinverseVector => .VInvertible
  | .homogeneous, .init => .Homogeneous
  | .affine, .init => .Affine
  | .similarity, .init => .Similarity
  | .rotation, .init => .Rotation
  | .translation, .init => .Translation
  | .uniformScale, .init => .UniformScale
  | .nonUniformScale, .init => .NonUniformScale
  | .alignmentAffine, .init => .AlignmentAffine
  | .alignmentSimilarity, .init => .AlignmentSimilarity
  | .alignmentRotation, .init => .AlignmentRotation
  | .alignmentTranslation, .init => .AlignmentTranslation
  | .alignmentUniformScale, .init => .AlignmentUniformScale
  | .homogeneous, .setHMatrix => .Homogeneous
  | .alignmentAffine, .setHMatrix => .AlignmentAffine
  | _, .setHMatrix => .Affine
  | .rotation, .setRotationMatrix => .Rotation
  | .alignmentRotation, .setRotationMatrix => .AlignmentRotation
  | _, .setRotationMatrix => .missing
  | c, .copy => if c.isAlignment then .HomogFamilyAlignment else .Copyable
  | .homogeneous, .hMatrix => .Homogeneous
  | _, .hMatrix => .Affine
  | c, .nDims => if c.isAlignment then .Targetable else .Homogeneous
  | .uniformScale, .scale => .UniformScale
  | .alignmentUniformScale, .scale => .UniformScale
  | .nonUniformScale, .scale => .NonUniformScale
  | _, .scale => .missing
  | .homogeneous, .translationComponent => .missing
  | _, .translationComponent => .Affine
  | .homogeneous, .linearComponent => .missing
  | _, .linearComponent => .Affine
  | .rotation, .rotationMatrix => .Rotation
  | .alignmentRotation, .rotationMatrix => .Rotation
  | _, .rotationMatrix => .missing

/-! ## thin plate splines at source level -/

inductive KCls where
  | R2LogR2RBF | R2LogRRBF
  deriving DecidableEq, Repr

/-- a kernel object: its class and its centres `c` -/
structure Kernel (n : Nat) where
  cls : KCls
  c : Fin n → P2

/-- `kernel.apply(points)`: entry `(i, j)` is the radial function of `‖points_i − c_j‖` -/
def kernMat {n m : Nat} (φ : Rat → Rat) (pts : Fin m → P2) (c : Fin n → P2) : Fin m → Fin n → Rat :=
  fun i j => kern φ (pts i) (c j)

def kernApply {n m : Nat} (φ : KCls → Rat → Rat) (k : Option (Kernel n)) (pts : Fin m → P2) : Fin m → Fin n → Rat :=
  match k with
  | some k => kernMat (φ k.cls) pts k.c
  | none => fun _ _ => 0

/-- `np.concatenate([np.ones([n, 1]), points], axis=1)` -/
def pMat {n : Nat} (pts : Fin n → P2) : Fin n → Fin 3 → Rat := fun i a => pRow (pts i) a

/-- `np.concatenate([A, B], axis=1)` / `axis=0`, `A.T`, `np.zeros([3, 3])` -/
def hcat {ι κ κ' : Type} (A : ι → κ → Rat) (B : ι → κ' → Rat) : ι → κ ⊕ κ' → Rat
  | i, .inl j => A i j
  | i, .inr j => B i j
def vcat {ι ι' κ : Type} (A : ι → κ → Rat) (B : ι' → κ → Rat) : ι ⊕ ι' → κ → Rat
  | .inl i, j => A i j
  | .inr i, j => B i j
def trM {ι κ : Type} (A : ι → κ → Rat) : κ → ι → Rat := fun j i => A i j
def zeros33 : Fin 3 → Fin 3 → Rat := fun _ _ => 0

/-- a `ThinPlateSplines` instance: landmarks, the kernel OBJECT, the truncation floor, the assembled system matrix -/
structure TPSObj (n : Nat) where
  src : Fin n → P2
  tgt : Fin n → P2
  kernel : Option (Kernel n)
  msv : Rat
  k : Option (Fin n → Fin n → Rat)
  p : Option (Fin n → Fin 3 → Rat)
  l : Option (Idx n → Idx n → Rat)

def TPSObj.blank {n : Nat} : TPSObj n := ⟨fun _ => ⟨0, 0⟩, fun _ => ⟨0, 0⟩, none, 0, none, none, none⟩

/-- reading an array attribute that `__init__` has (or has not yet) stored -/
def arrOr0 {ι κ : Type} (a : Option (ι → κ → Rat)) : ι → κ → Rat := a.getD fun _ _ => 0

/-- the spline of the model: landmarks and kernel centres -/
def TPSObj.toTPS {n : Nat} (o : TPSObj n) : TPS n := ⟨o.src, o.tgt, (o.kernel.map (·.c)).getD o.src⟩

/-! ## piecewise affine at source level -/

/-- a landmark container: its points, and the trilist if it is a `TriMesh` (or subclass) -/
structure ShapeObj where
  points : List P2
  trilist : Option (List (Nat × Nat × Nat))

/-- `TriMesh(points, trilist=None)`: without a trilist the points are triangulated (Delaunay: a parameter) -/
def mkTriMesh (delaunay : List P2 → List (Nat × Nat × Nat)) (p : List P2) (t : Option (List (Nat × Nat × Nat))) :
    ShapeObj := ⟨p, some (t.getD (delaunay p))⟩

inductive PWAKind where
  | PythonPWA | CachedPWA
  deriving DecidableEq, Repr

structure PWAObj where
  kind : PWAKind
  source : ShapeObj
  target : ShapeObj

def PWAObj.blank (k : PWAKind) : PWAObj := ⟨k, ⟨[], none⟩, ⟨[], none⟩⟩

/-- the mesh of the model: source points, target points, the SOURCE's trilist -/
def PWAObj.toMesh (o : PWAObj) : PWAMesh := ⟨o.source.points, o.target.points, o.source.trilist.getD []⟩

/-- the rows of `self.ti`, `self.tij`, `self.tik` that belong to one triangle -/
structure TriVecs where
  ti : P2
  tij : P2
  tik : P2

/-- `_rebuild_target_vectors` seen from one triangle: the target points, the triangle's index triple, its rows -/
structure PWATri where
  tgt : List P2
  tri : Nat × Nat × Nat
  vecs : TriVecs

/-! ## `pseudoinverse_vector` -/

/-- `self.from_vector(vector).pseudoinverse().as_vector()` with the (de)vectorisation as parameters (C05's subject) -/
def pinvVector {d : Nat} {α V : Type} (fromVec : HT d α → V → Option (HT d α)) (asVec : HT d α → V)
    (t : HT d α) (v : V) : Option V :=
  (fromVec t v).bind fun o => (pinv o).map asVec

end MenpoModel.C04
