/-
C08 — the vocabulary of the SOURCE TRANSLATION (harness/trans_c08.py).  Core Lean only.

`Generated/C08Src.lean` is rewritten on every run from the source text of menpo's `Targetable.set_target`, the
`Alignment` base class, the `_sync_state_from_target` of every alignment class, the constructors of the alignment
classes and of their homogeneous parents, `ThinPlateSplines._build_coefficients`, `AbstractPWA._rebuild_target_vectors`,
`HomogFamilyAlignment.copy / pseudoinverse`, the `_from_vector_inplace` / `_set_h_matrix` / `set_rotation_matrix`
overrides, `procrustes_alignment`, `MultipleAlignment.__init__` and `GeneralizedProcrustesAnalysis.__init__ /
_recursive_procrustes`.  This file holds the words those translations are written in:

* the Python exception classes (`PyExc`) and the embedding of the model's `Err` into them;
* reading / re-binding the attributes of an alignment object that the model keeps in `Obj.state`;
* the two methods of the homogeneous parents whose bodies are numpy shape checks (`Affine._set_h_matrix`,
  `Rotation.set_rotation_matrix`): vocabulary, not translated;
* numpy as abstract operations, one per numpy expression of the translated code (`Np`), and the TPS system matrix /
  coefficient solve / PWA target vectors *as the code assembles them* from those operations;
* the numerical operations of generalized Procrustes analysis one by one (`GpaK`) and the `GpaExt` they make up;
* the GPA object with exactly its instance attributes (`PyGpa`), and `gpaChecked`: `gpa` with the argument checks of
  `MultipleAlignment.__init__`;
* `procrustesOf`: `procrustes_alignment` as a composition of the fits it calls.

`GenProps/C08Src.lean` proves every translated definition equal to the Core definition the C08 theorems are about.
-/
import MenpoModel.Core.C08Retarget
import MenpoModel.Core.PyLoop

namespace MenpoModel.C08

/-! ### exceptions -/

/-- the exception classes the translated code raises -/
inductive PyExc where
  | valueError | indexError | assertionError | recursionError | notImplementedError
  deriving DecidableEq, Repr

/-- every rejection the model knows (`dims`, `points`, `not2d`, `not2or3d`) is a `ValueError` in the code -/
def Err.py : Err → PyExc := fun _ => .valueError

@[simp] theorem Err.py_eq (err : Err) : err.py = .valueError := rfl

/-- CPython's default recursion limit: the fuel `GeneralizedProcrustesAnalysis.__init__` gives `_recursive_procrustes` -/
def pyRecursionLimit : Nat := 1000

/-- a model computation seen with Python's exception classes -/
def liftErr {α : Type} : Except Err α → Except PyExc α
  | .ok a => .ok a
  | .error err => .error err.py

@[simp] theorem liftErr_ok {α : Type} (a : α) : liftErr (.ok a : Except Err α) = .ok a := rfl
@[simp] theorem liftErr_error {α : Type} (err : Err) : liftErr (.error err : Except Err α) = .error .valueError := rfl

/-- `[f(x) for x in xs]`, and `for x in xs: <in-place statements on x>`, when `f` may raise: the first exception
propagates -/
def mapExcept {ε α β : Type} (f : α → Except ε β) : List α → Except ε (List β)
  | [] => .ok []
  | x :: xs =>
    match f x with
    | .error err => .error err
    | .ok y => match mapExcept f xs with
      | .error err => .error err
      | .ok ys => .ok (y :: ys)

/-- `xs[i]` on a Python list -/
def pyIndex {α : Type} (xs : List α) (i : Nat) : Except PyExc α :=
  match xs[i]? with
  | some x => .ok x
  | none => .error .indexError

variable {Pts A : Type}

/-! ### attributes kept in `Obj.state` -/

/-- `self._h_matrix` / `self.h_matrix` -/
def Obj.h (o : Obj Pts A) : Mat :=
  match o.state with
  | .hom h => h
  | _ => eye

/-- `self._h_matrix = h` (re-binding) -/
def Obj.setH (o : Obj Pts A) (h : Mat) : Obj Pts A := { o with state := .hom h }

/-- `self.l` (`default` stands for an attribute that is `None` or absent) -/
def Obj.l [Inhabited A] (o : Obj Pts A) : A :=
  match o.state with
  | .tps l _ => l
  | _ => default

/-- `self.coefficients` -/
def Obj.coef [Inhabited A] (o : Obj Pts A) : A :=
  match o.state with
  | .tps _ c => c
  | _ => default

/-- `self.l = l` -/
def Obj.setL [Inhabited A] (o : Obj Pts A) (l : A) : Obj Pts A := { o with state := .tps l o.coef }

/-- `self.coefficients = c` -/
def Obj.setCoef [Inhabited A] (o : Obj Pts A) (c : A) : Obj Pts A := { o with state := .tps o.l c }

/-- `self.ti, self.tij, self.tik` as one value -/
def Obj.setTv (o : Obj Pts A) (tv : A) : Obj Pts A := { o with state := .pwa tv }

/-- an attribute holding a flag; reading one that was never stored gives the callee's default (on the real
code: `AttributeError`) — either way an option the constructor forgets to store breaks the obligation
"sync after init = init" -/
def attrFlag (x : Option Bool) (dflt : Bool) : Bool := x.getD dflt

/-- what `object.__new__(cls)` returns: no instance attribute yet.  `source`, `target`, `state` of such a value
are placeholders; the constructor obligations quantify over *every* newborn, so no constructor may depend on them -/
def Newborn (c : Cls) (o : Obj Pts A) : Prop :=
  o.cls = c ∧ o.rotation = none ∧ o.allowMirror = none ∧ o.kernel = none ∧ o.minSV = none

/-- one newborn (used for `Cls(…)` = `__new__` + `__init__`) -/
def blank (c : Cls) (s t : Pts) : Obj Pts A :=
  { cls := c, rotation := none, allowMirror := none, kernel := none, minSV := none,
    source := s, target := t, state := .hom eye }

theorem blank_newborn (c : Cls) (s t : Pts) : Newborn c (blank c s t : Obj Pts A) := ⟨rfl, rfl, rfl, rfl, rfl⟩

/-! ### the two shape-checking setters of the homogeneous parents (vocabulary)

The matrices of the model are `(d+1)×(d+1)` with `d = n_dims` of the alignment's point sets and have the
bottom row `[0 … 0 1]` by construction, so of the checks of `Affine._set_h_matrix` (square, same dimension as the
matrix held, 2-D or 3-D, bottom row) only "2-D or 3-D" can fail; those of `Rotation.set_rotation_matrix` (square,
same dimension) cannot. -/

/-- `Affine._set_h_matrix(self, value, copy=…, skip_checks=…)` -/
def affineSetH (e : Ext Pts A) (o : Obj Pts A) (v : Mat) (_copy skipChecks : Bool) : Except PyExc (Obj Pts A) :=
  if !skipChecks && (e.nDims o.source != 2 && e.nDims o.source != 3) then .error .valueError
  else .ok (o.setH v)

/-- `Rotation.set_rotation_matrix(self, value, skip_checks=…)`: `self._h_matrix[:-1, :-1] = value` -/
def rotationSetR (e : Ext Pts A) (o : Obj Pts A) (r : Mat) (_skipChecks : Bool) : Obj Pts A :=
  o.setH (setBlock (e.nDims o.source) r o.h)

/-! ### numpy, abstractly: one operation per numpy expression of the translated code -/

structure Np (Pts A : Type) where
  /-- `x.points` -/
  pts : Pts → A
  /-- `a.T` (and `a.T.copy()`) -/
  tr : A → A
  /-- `np.concatenate([a, b], axis=1)`, `np.hstack([a, b])` -/
  hcat : A → A → A
  /-- `np.concatenate([a, b], axis=0)` -/
  vcat : A → A → A
  /-- `np.ones([n, 1])` -/
  ones : Nat → A
  /-- `np.zeros([r, c])` -/
  zeros : Nat → Nat → A
  /-- `kernel.apply(points)` for the kernel with that identifier (0: the `R2LogR2RBF` the constructor makes
  when none is given) -/
  kernel : Nat → A → A
  /-- `np.linalg.svd(a)` -/
  svd : A → A × A × A
  /-- `sum(s < floor)` -/
  nBelow : A → Rat → Nat
  /-- `s.shape[0] - n` -/
  keep : A → Nat → Nat
  /-- `1.0 / s[:k, None]` -/
  invSing : A → Nat → A
  /-- `a * v[:k, :]` -/
  scaleRows : A → A → Nat → A
  /-- `u[:, :k].dot(x)` -/
  leftDot : A → Nat → A → A
  /-- `a.dot(b)` -/
  dot : A → A → A
  /-- `points[trilist]` with the triangle list of the (TriMesh) point set given -/
  take : A → Pts → A
  /-- `t[:, j]` -/
  col : A → Nat → A
  /-- `a - b` -/
  sub : A → A → A
  /-- the attributes `ti, tij, tik` as one value -/
  pack3 : A → A → A → A
  /-- `barycentric_vectors(points, trilist)` -/
  bary : A → Pts → A × A × A
  /-- `isinstance(x, TriMesh)` -/
  isTriMesh : Pts → Bool
  /-- `TriMesh(x.points)` -/
  triMesh : Pts → Pts

/-- the TPS system matrix as `ThinPlateSplines.__init__` assembles it: `[[K, P], [Pᵀ, 0]]` -/
def Np.tpsL (np : Np Pts A) (e : Ext Pts A) (kernel : Nat) (s : Pts) : A :=
  let k := np.kernel kernel (np.pts s)
  let p := np.hcat (np.ones (e.nPoints s)) (np.pts s)
  np.vcat (np.hcat k p) (np.hcat (np.tr p) (np.zeros 3 3))

/-- the TPS coefficients as `_build_coefficients` computes them -/
def Np.tpsCoef (np : Np Pts A) (l : A) (floor : Rat) (t : Pts) : A :=
  let y := np.hcat (np.tr (np.pts t)) (np.zeros 2 3)
  let usv := np.svd l
  let keep := np.keep usv.2.1 (np.nBelow usv.2.1 floor)
  np.dot (np.leftDot usv.1 keep (np.scaleRows (np.invSing usv.2.1 keep) usv.2.2 keep)) (np.tr y)

/-- the PWA target vectors as `_rebuild_target_vectors` computes them -/
def Np.pwaVectors (np : Np Pts A) (s t : Pts) : A :=
  let tt := np.take (np.pts t) s
  np.pack3 (np.col tt 0) (np.sub (np.col tt 1) (np.col tt 0)) (np.sub (np.col tt 2) (np.col tt 0))

/-- the source a piecewise-affine alignment really keeps: the caller's `TriMesh`, or a `TriMesh` made from the
points of anything else -/
def Np.meshOf (np : Np Pts A) (s : Pts) : Pts := if np.isTriMesh s then s else np.triMesh s

/-- the abstract fits of the model are the ones numpy computes (hypothesis of the TPS / PWA obligations;
satisfiable for every `np`: `Ext.withNp`) -/
def NpFits (np : Np Pts A) (e : Ext Pts A) : Prop :=
  (∀ k s, e.tpsL k s = np.tpsL e k s) ∧ (∀ l f t, e.tpsCoef l f t = np.tpsCoef l f t) ∧
  (∀ s t, e.pwaVectors s t = np.pwaVectors s t)

def Ext.withNp (e : Ext Pts A) (np : Np Pts A) : Ext Pts A :=
  { e with tpsL := fun k s => np.tpsL e k s, tpsCoef := np.tpsCoef, pwaVectors := np.pwaVectors }

theorem withNp_fits (e : Ext Pts A) (np : Np Pts A) : NpFits np (e.withNp np) := ⟨fun _ _ => rfl, fun _ _ _ => rfl, fun _ _ => rfl⟩

/-! ### `procrustes_alignment` as the composition the code builds -/

/-- the pieces `procrustes_alignment` composes (each a homogeneous matrix), abstract -/
structure ProcK (Pts : Type) where
  /-- `Translation(-x.centre())` -/
  negCentre : Pts → Mat
  /-- `UniformScale(target.norm() / source.norm(), n_dims)` -/
  scale : Pts → Pts → Nat → Mat
  /-- `Similarity.init_identity(n_dims)` -/
  identity : Nat → Mat
  /-- `p.compose_before_inplace(t)`: the matrix of `p` followed by `t` -/
  before : Mat → Mat → Mat
  /-- `optimal_rotation_matrix(p.apply(source), tgt_t.apply(target), allow_mirror)` given `p`, `tgt_t` -/
  optimalRotation : Bool → Mat → Mat → Pts → Pts → Mat
  /-- `Rotation(r)` -/
  rotation : Mat → Mat
  /-- `t.pseudoinverse()` -/
  pinv : Mat → Mat

/-- `procrustes_alignment(source, target, rotation, allow_mirror).h_matrix` -/
def ProcK.procrustes (k : ProcK Pts) (nDims : Pts → Nat) (rotation allowMirror : Bool) (s t : Pts) : Mat :=
  let tgtT := k.negCentre t
  let p := k.before (k.before (k.identity (nDims s)) (k.negCentre s)) (k.scale s t (nDims s))
  let p := if rotation then k.before p (k.rotation (k.optimalRotation allowMirror p tgtT s t)) else p
  k.before p (k.pinv tgtT)

/-! ### generalized Procrustes analysis: its numerical operations one by one -/

structure GpaK (Pts S : Type) where
  /-- `PointCloud(sum(points) / n)`, `mean_pointcloud(…)` -/
  meanOf : List Pts → Pts
  /-- `x.norm()` -/
  norm : Pts → S
  /-- `a / b` -/
  ratio : S → S → S
  /-- `scale_about_centre(c, r)._apply_inplace(x)`: arguments `c`, `r`, `x` -/
  scaleAbout : Pts → S → Pts → Pts
  /-- `np.linalg.norm(a.points - b.points)` -/
  dist : Pts → Pts → S
  /-- `· < 1e-6` -/
  below : S → Bool

/-- the `GpaExt` these operations make up, as `_recursive_procrustes` combines them: the mean of the aligned
sources, scaled about its own centre by `initial norm / its norm` -/
def GpaK.toExt {S : Type} (k : GpaK Pts S) : GpaExt Pts where
  meanOf := k.meanOf
  newTarget := fun initial aligned =>
    k.scaleAbout (k.meanOf aligned) (k.ratio (k.norm initial) (k.norm (k.meanOf aligned))) (k.meanOf aligned)
  closeEnough := fun a b => k.below (k.dist a b)

/-- a `GeneralizedProcrustesAnalysis` object: exactly its instance attributes -/
structure PyGpa (Pts A S : Type) where
  nSources : Nat
  nPoints : Nat
  nDims : Nat
  sources : List Pts
  target : Pts
  transforms : List (Obj Pts A)
  initialTargetScale : S
  nIterations : Nat
  maxIterations : Nat
  converged : Bool

/-- what the model keeps of it -/
def PyGpa.toGpa {S : Type} (g : PyGpa Pts A S) : Gpa Pts A :=
  { transforms := g.transforms, target := g.target, nIterations := g.nIterations, converged := g.converged }

/-- `GeneralizedProcrustesAnalysis(sources, target, allow_mirror)` with the argument checks of
`MultipleAlignment.__init__`: fewer than two sources without a target is a `ValueError`; `sources[0]` of an empty
list an `IndexError`; `assert self.n_dims` fails on 0-dimensional shapes *when a target is given* -/
def gpaChecked (e : Ext Pts A) (g : GpaExt Pts) (maxIter : Nat) (sources : List Pts) (target : Option Pts)
    (allowMirror : Bool) : Except PyExc (Gpa Pts A) :=
  if sources.length < 2 ∧ target.isNone then .error .valueError
  else match sources with
    | [] => .error .indexError
    | s0 :: _ =>
      if target.isSome ∧ e.nDims s0 = 0 then .error .assertionError
      else liftErr (gpa fixed e g maxIter sources target allowMirror)

end MenpoModel.C08
