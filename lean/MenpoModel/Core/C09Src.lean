/-
C09 — definitions that MIRROR THE SOURCE TEXT of the anchored functions, statement by statement, over a small
vocabulary of array operations.  `harness/trans_c09.py` translates the source of the current working tree into
`Generated/C09Src.lean` on every run and `GenProps/C09Src.lean` proves every translated definition equal to the
definition of the same name here (suffix `Src`), for all arguments; `Props/C09Src.lean` proves these equal to the
Core model the property theorems were first stated about (`Core/C09*.lean`) and restates the property theorems for
them.  Core Lean only (core `Rat`).

  Transform._apply_batched            applyBatchedSrc        (menpo/transform/base/__init__.py)
  Transform.apply                     applySrc
  AbstractPWA._apply_batched          pwaApplyBatchedSrc     (menpo/transform/piecewiseaffine/base.py)
  AbstractPWA._apply                  pwaApplySrc
  PythonPWA.index_alpha_beta          pythonIabSrc
  CachedPWA.index_alpha_beta          cachedIabSrc
  index_alpha_beta                    indexAlphaBetaSrc
  containment_from_alpha_beta         containmentSrc
  alpha_beta                          alphaBetaSrc
  TransformChain._apply               chainApplySrc          (menpo/transform/base/composable.py)
  TransformChain._apply_batched       chainApplyBatchedSrc
  WithDims._apply                     withDimsSrc            (menpo/transform/__init__.py)
  pwa_point_in_pointcloud             pointInPointcloudSrc   (menpo/image/boolean.py)
-/
import MenpoModel.Core.PyLoop
import MenpoModel.Core.C09Pwa
import MenpoModel.Core.C09Chain

namespace MenpoModel.C09

/-! ### Python / numpy vocabulary -/

def pyRangeAux (k : Nat) : Nat → Nat → Nat → List Nat
  | 0, _, _ => []
  | fuel + 1, lo, n => if lo < n then lo :: pyRangeAux k fuel (lo + k) n else []

/-- `range(0, n, k)` for `k ≥ 1` (`n + 1` units of fuel are always enough; `k = 0` raises in Python, never driven) -/
def pyRange (n k : Nat) : List Nat := pyRangeAux k (n + 1) 0 n

/-- `x[lo:hi]` on the first axis -/
def pySlice {α} (x : List α) (lo hi : Nat) : List α := (x.drop lo).take (hi - lo)

abbrev Vec := List Rat
abbrev Arr2 := List (List Rat)

/-- `~mask` -/
def vecNot (m : List Bool) : List Bool := m.map fun b => !b

/-- `a >= 0` on a 2-D array -/
def arrGe0 (a : Arr2) : List (List Bool) := a.map fun r => r.map fun v => decide (0 ≤ v)
/-- `a + b <= 1` on 2-D arrays of the same shape -/
def arrSumLe1 (a b : Arr2) : List (List Bool) := List.zipWith (List.zipWith fun x y => decide (x + y ≤ 1)) a b
/-- `np.logical_and` -/
def arrAnd (a b : List (List Bool)) : List (List Bool) := List.zipWith (List.zipWith fun x y => x && y) a b
/-- `np.any(a, axis=1)` -/
def anyAxis1 (a : List (List Bool)) : List Bool := a.map fun r => r.any id
/-- `np.nonzero` of a 2-D boolean array: the two index vectors, row major -/
def nonzero2 (a : List (List Bool)) : List Nat × List Nat := ((nonzeroFrom 0 a).map Prod.fst, (nonzeroFrom 0 a).map Prod.snd)
/-- `x[i] = v` for index vectors: the assignments happen one after the other (for a repeated index the last stays) -/
def scatter (x : List Nat) (i v : List Nat) : List Nat := assign x (i.zip v)
/-- `a[rows, cols]` -/
def gather2 (a : Arr2) (rows cols : List Nat) : Vec := List.zipWith (fun r c => (a.getD r []).getD c 0) rows cols
/-- `a[idx]` on the first axis of an array of 2-vectors -/
def gatherPts (a : List Pt) (idx : List Nat) : List Pt := idx.map fun j => a.getD j (0, 0)
/-- a 1-D array turned into a column, `a[:, None]`: only a column may be broadcast against an array of 2-vectors
(a bare 1-D array in that place - `alpha * tij[...]` without `[:, None]` - does not type-check against `colMul`) -/
structure Col where
  v : Vec
/-- `col[:, None] * rows` -/
def colMul (c : Col) (rows : List Pt) : List Pt := List.zipWith (fun s p => (s * p.1, s * p.2)) c.v rows

/-- `np.vstack` of a list of arrays of rows: the rows of all of them.  Irreducible, so that it is NOT definitionally the
same word as `hstackL` (a swapped `vstack` / `hstack` must not keep an obligation); `vstackL_eq` unfolds it -/
@[irreducible] def vstackL {α} (l : List (List α)) : List α := l.flatten
/-- `np.hstack` of a list of 1-D arrays: their entries one after the other -/
@[irreducible] def hstackL {α} (l : List (List α)) : List α := l.flatten
theorem vstackL_eq {α} (l : List (List α)) : vstackL l = l.flatten := by unfold vstackL; rfl
theorem hstackL_eq {α} (l : List (List α)) : hstackL l = l.flatten := by unfold hstackL; rfl
def ptsAdd (a b : List Pt) : List Pt := List.zipWith (fun p q => (p.1 + q.1, p.2 + q.2)) a b

/-- `points[..., None] - i`: entry `[v][t]` is the vector from vertex `i` of triangle `t` to point `v` -/
def ipArr (points i : List Pt) : List (List Pt) := points.map fun p => i.map fun q => (p.1 - q.1, p.2 - q.2)
/-- `np.einsum("dt, dt -> t", a, b)` -/
def dotT (a b : List Pt) : Vec := List.zipWith dot a b
/-- `np.einsum("vdt, dt -> vt", ip, b)` -/
def dotVT (ip : List (List Pt)) (b : List Pt) : Arr2 := ip.map fun row => List.zipWith dot row b
/-- `1.0 / v` -/
def recipT (v : Vec) : Vec := v.map fun x => 1 / x

/-- numpy broadcasting of `*` and `-` between per-triangle vectors `(t,)` and per-point-per-triangle arrays `(v, t)` -/
class BMul (α β : Type) (γ : outParam Type) where bmul : α → β → γ
class BSub (α β : Type) (γ : outParam Type) where bsub : α → β → γ
export BMul (bmul)
export BSub (bsub)
instance : BMul Vec Vec Vec := ⟨List.zipWith (· * ·)⟩
instance : BMul Vec Arr2 Arr2 := ⟨fun t vt => vt.map fun r => List.zipWith (· * ·) t r⟩
instance : BMul Arr2 Vec Arr2 := ⟨fun vt t => vt.map fun r => List.zipWith (· * ·) r t⟩
instance : BSub Vec Vec Vec := ⟨List.zipWith (· - ·)⟩
instance : BSub Arr2 Arr2 Arr2 := ⟨List.zipWith (List.zipWith (· - ·))⟩

/-! ### batching -/

/-- one turn of the loop of `Transform._apply_batched`: the first batch that raises ends the loop -/
def batchStep {α β ε} (ap : List α → Except ε (List β)) (x : List α) (k : Nat)
    (acc : Option (Except ε (List β)) × List (List β)) (lo : Nat) : Option (Except ε (List β)) × List (List β) :=
  if acc.1.isSome then acc
  else Py.tryCatch (ap (pySlice x lo (lo + k))) (fun e => (some (.error e), acc.2)) (fun v => (none, acc.2 ++ [v]))

/-- `Transform._apply_batched(self, x, batch_size)`; `ap` = `self._apply` -/
def applyBatchedSrc {α β ε} (ap : List α → Except ε (List β)) (bs : Option Nat) (x : List α) : Except ε (List β) :=
  if bs.isNone then ap x
  else if x.length == 0 then ap x
  else
    let r := Py.forLoop (none, []) (pyRange x.length (bs.getD 0)) (batchStep ap x (bs.getD 0))
    Py.onExit r.1 (fun v => v) (.ok (vstackL r.2))

/-- one turn of the loop of `AbstractPWA._apply_batched`: state = (outputs, exception_thrown,
points_outside_source_domain); a batch that raises contributes its mask, a clean batch one `False` per point -/
def pwaBatchStep {α β} (ap : List α → Except (List Bool) (List β)) (x : List α) (k : Nat)
    (acc : List (List β) × Bool × List (List Bool)) (lo : Nat) : List (List β) × Bool × List (List Bool) :=
  Py.tryCatch (ap (pySlice x lo (lo + k))) (fun e => (acc.1, true, acc.2.2 ++ [e]))
    (fun v => (acc.1 ++ [v], acc.2.1, acc.2.2 ++ [List.replicate (pySlice x lo (lo + k)).length false]))

/-- `AbstractPWA._apply_batched(self, x, batch_size)` -/
def pwaApplyBatchedSrc {α β} (ap : List α → Except (List Bool) (List β)) (bs : Option Nat) (x : List α) :
    Except (List Bool) (List β) :=
  if bs.isNone then ap x
  else if x.length == 0 then ap x
  else
    let r := Py.forLoop ([], false, []) (pyRange x.length (bs.getD 0)) (pwaBatchStep ap x (bs.getD 0))
    if r.2.1 then .error (hstackL r.2.2) else .ok (vstackL r.1)

/-! ### the piecewise-affine point location, array by array -/

/-- `alpha_beta(i, ij, ik, points)` -/
def alphaBetaSrc (i ij ik points : List Pt) : Arr2 × Arr2 :=
  let ip := ipArr points i
  let jj := dotT ij ij
  let kk := dotT ik ik
  let jk := dotT ij ik
  let pj := dotVT ip ij
  let pk := dotVT ip ik
  let d := recipT (bsub (bmul jj kk) (bmul jk jk))
  (bmul (bsub (bmul kk pj) (bmul jk pk)) d, bmul (bsub (bmul jj pk) (bmul jk pj)) d)

/-- `containment_from_alpha_beta(alpha, beta)` -/
def containmentSrc (alpha beta : Arr2) : Except (List Bool) (List Nat) :=
  let pc := arrAnd (arrAnd (arrGe0 alpha) (arrGe0 beta)) (arrSumLe1 alpha beta)
  let inATri := anyAxis1 pc
  if (vecNot inATri).any id then .error (vecNot inATri)
  else
    let nz := nonzero2 pc
    .ok (scatter (List.replicate alpha.length 0) nz.1 nz.2)

/-- the module-level `index_alpha_beta(i, ij, ik, points)` -/
def indexAlphaBetaSrc (i ij ik points : List Pt) : Except (List Bool) (List Nat × Vec × Vec) :=
  let ab := alphaBetaSrc i ij ik points
  let eachPoint := List.range points.length
  Py.tryCatch (containmentSrc ab.1 ab.2) (fun e => .error e)
    (fun index => .ok (index, gather2 ab.1 eachPoint index, gather2 ab.2 eachPoint index))

/-- `PythonPWA.index_alpha_beta(self, points)`: which of the stored arrays goes where -/
def pythonIabSrc (src : List Tri) (points : List Pt) : Except (List Bool) (List Nat × Vec × Vec) :=
  indexAlphaBetaSrc (src.map Tri.i) (src.map Tri.ij) (src.map Tri.ik) points

/-- `AbstractPWA._apply(self, x)`; `iab` = `self.index_alpha_beta`, `ti tij tik` the target vectors -/
def pwaApplySrc (iab : List Pt → Except (List Bool) (List Nat × Vec × Vec)) (ti tij tik : List Pt) (x : List Pt) :
    Except (List Bool) (List Pt) :=
  Py.tryCatch (iab x) (fun e => .error e)
    (fun r => .ok (ptsAdd (ptsAdd (gatherPts ti r.1) (colMul ⟨r.2.1⟩ (gatherPts tij r.1))) (colMul ⟨r.2.2⟩ (gatherPts tik r.1))))

/-! ### the memo of `CachedPWA` as the two attributes it writes -/

/-- an array the transform OWNS: the result of `np.array(points, copy=True)`.  The memo key has this type, so that
storing the caller's array itself (`self._applied_points = points`, the defect repaired by d62a379: later in-place edits of
the caller's array would change the key) does not type-check against `cachedIabSrc`; only a private copy does.  What a
key that is a REFERENCE does is the state machine `stepCoded` of Core/C09.lean, refuted by `apply_pure_coded_refuted_aliasing`. -/
structure Owned (Val : Type) where
  val : Val
  deriving DecidableEq

/-- `np.array(points, copy=True)` -/
def Owned.copy {Val} (v : Val) : Owned Val := ⟨v⟩

structure MemoSt (Val Res : Type) where
  key : Option (Owned Val)
  iab : Option Res

/-- `points.shape == self._applied_points.shape` (only evaluated when the attribute is not `None`) -/
def shapeEqO {Val} (shape : Val → Nat) (p : Val) (q : Option (Owned Val)) : Bool :=
  match q with
  | some w => shape p == shape w.val
  | none => false
/-- `np.array_equal(points, self._applied_points)` -/
def arrEqO {Val} [DecidableEq Val] (p : Val) (q : Option (Owned Val)) : Bool := decide (q = some ⟨p⟩)

/-- `CachedPWA.index_alpha_beta(self, points)`: new attributes and the result (`compute` = `PythonPWA.index_alpha_beta`) -/
def cachedIabSrc {Val Res Err} [DecidableEq Val] (shape : Val → Nat) (compute : Val → Except Err Res)
    (s : MemoSt Val Res) (points : Val) : MemoSt Val Res × Except Err (Option Res) :=
  if s.key.isNone || !(shapeEqO shape points s.key) || !(arrEqO points s.key) then
    Py.tryCatch (compute points) (fun e => (s, .error e))
      (fun v => ({ key := some (Owned.copy points), iab := some v }, .ok (some v)))
  else (s, .ok s.iab)

/-! ### chains, `WithDims`, `apply`, `pwa_point_in_pointcloud` -/

/-- `TransformChain._apply`: `reduce(lambda x_i, tr: tr._apply(x_i), self.transforms, x)` -/
def chainApplySrc {ε α} (fs : List (List α → Except ε (List α))) (x : List α) : Except ε (List α) :=
  List.foldlM (fun xi tr => tr xi) x fs

/-- `TransformChain._apply_batched`: the loop of `AbstractPWA` over the chain's own `_apply` -/
def chainApplyBatchedSrc {α} (ap : List α → Except (List Bool) (List α)) (bs : Option Nat) (x : List α) :
    Except (List Bool) (List α) :=
  pwaApplyBatchedSrc ap bs x

/-- what `WithDims.dims` may hold: one column number or a list of them -/
inductive Dims where
  | one (j : Nat)
  | many (js : List Nat)
  deriving DecidableEq, Repr

/-- a 1-D or a 2-D array -/
inductive ArrND where
  | d1 (v : List Rat)
  | d2 (rows : List (List Rat))
  deriving DecidableEq, Repr

def ArrND.ndim : ArrND → Nat
  | .d1 _ => 1
  | .d2 _ => 2
/-- `y[:, None]` on a 1-D array -/
def ArrND.addAxis : ArrND → ArrND
  | .d1 v => .d2 (v.map fun a => [a])
  | .d2 r => .d2 r
/-- `x[:, dims]` (a column outside the points reads as 0; numpy raises, never driven) -/
def selectCols (x : List PtN) : Dims → ArrND
  | .one j => .d1 (x.map fun p => p.getD j 0)
  | .many js => .d2 (x.map fun p => js.map fun j => p.getD j 0)

/-- `WithDims._apply(self, x)` -/
def withDimsSrc (dims : Dims) (x : List PtN) : ArrND :=
  let y := selectCols x dims
  if y.ndim == 1 then y.addAxis else y

/-- what `Transform.apply` may be given: an array, or a shape holding one (anything with `_transform`) -/
inductive PyVal (α : Type) where
  | arr (a : List α)
  | shape (a : List α)
  deriving DecidableEq, Repr

/-- the exceptions `Transform.apply` distinguishes: `AttributeError`, anything else -/
inductive Exc (ε : Type) where
  | attr
  | other (e : ε)
  deriving DecidableEq, Repr

def Exc.isAttr {ε} : Exc ε → Bool
  | .attr => true
  | .other _ => false

/-- `self._apply_batched(v, batch_size)` for an argument that is an array; a shape has no `.shape[0]` / slicing -/
def liftAb {α ε} (ab : Option Nat → List α → Except ε (List α)) (bs : Option Nat) : PyVal α → Except (Exc ε) (PyVal α)
  | .arr a => match ab bs a with
    | .ok r => .ok (.arr r)
    | .error e => .error (.other e)
  | .shape _ => .error .attr

/-- `x._transform(f)`: an array has no such attribute; a shape returns a copy holding `f(points)` -/
def PyVal.transform {α ε} (x : PyVal α) (f : PyVal α → Except (Exc ε) (PyVal α)) : Except (Exc ε) (PyVal α) :=
  match x with
  | .arr _ => .error .attr
  | .shape a => match f (.arr a) with
    | .ok (.arr b) => .ok (.shape b)
    | .ok (.shape _) => .error .attr
    | .error e => .error e

/-- `Transform.apply(self, x, batch_size)`; `ab` = the class's `_apply_batched` -/
def applySrc {α ε} (ab : Option Nat → List α → Except ε (List α)) (bs : Option Nat) (x : PyVal α) :
    Except (Exc ε) (PyVal α) :=
  Py.tryCatch (x.transform (fun v => liftAb ab bs v)) (fun e => if e.isAttr then liftAb ab bs x else .error e)
    (fun v => .ok v)

/-- `pwa_point_in_pointcloud(pcloud, indices, batch_size)`; `mk` = `PiecewiseAffine(pcloud, pcloud)`,
`app` = its `apply(indices, batch_size=…)` -/
def pointInPointcloudSrc {PC T} (mk : PC → PC → T) (app : T → Option Nat → List Pt → Except (List Bool) (List Pt))
    (pcloud : PC) (indices : List Pt) (bs : Option Nat) : List Bool :=
  Py.tryCatch (app (mk pcloud pcloud) bs indices) (fun e => vecNot e) (fun _ => List.replicate indices.length true)

end MenpoModel.C09
