/- Vocabulary of harness/py2lean2g.py: a Python `while` loop with fuel.  `none` = the fuel ran out before the test
   became false (the translation then takes the value its rules name; an equality obligation with a sufficient
   fuel shows that branch dead).  No Mathlib. -/
namespace MenpoModel.Py

/-- `while c s: s = b s`, at most `fuel` evaluations of the test -/
def whileG {σ : Type} : Nat → σ → (σ → Bool) → (σ → σ) → Option σ
  | 0, _, _, _ => none
  | fuel + 1, s, c, b => if c s then whileG fuel (b s) c b else some s

theorem whileG_zero {σ : Type} (s : σ) (c : σ → Bool) (b : σ → σ) : whileG 0 s c b = none := rfl

theorem whileG_succ {σ : Type} (fuel : Nat) (s : σ) (c : σ → Bool) (b : σ → σ) :
    whileG (fuel + 1) s c b = if c s then whileG fuel (b s) c b else some s := rfl

/-- a loop that stops with less fuel stops with more, at the same state -/
theorem whileG_mono {σ : Type} (c : σ → Bool) (b : σ → σ) (fuel : Nat) (s r : σ) (h : whileG fuel s c b = some r) :
    ∀ k, whileG (fuel + k) s c b = some r := by
  induction fuel generalizing s with
  | zero => simp [whileG] at h
  | succ n ih =>
    intro k
    have e : n + 1 + k = (n + k) + 1 := by omega
    rw [e, whileG_succ]
    rw [whileG_succ] at h
    by_cases hc : c s
    · simp only [hc, if_true] at h ⊢; exact ih _ h k
    · simp only [hc] at h ⊢; exact h

end MenpoModel.Py
