/-
C14 — Kruskal with the chosen edges collected.  Core Lean only.

`Graph.kruskal` (in `Core/C14Graph.lean`) is the model's reference for the minimum-spanning-tree
weight; it folds over the weight-sorted candidate list with a label array and keeps only the total
weight and the number of edges taken.  `Graph.kruskalEdges` is the SAME fold (same candidate list,
same test `lab[i] = lab[j]`, same relabelling) that additionally collects the edges taken, so that
`Lemmas/C14Kruskal.lean` can state what the two numbers mean (a minimum-weight spanning forest).
-/
import MenpoModel.Core.C14Graph

namespace MenpoModel.C14

/-- a weighted undirected edge `(w, i, j)` as listed by `Graph.wEdges` -/
abbrev WEdge := Nat × Nat × Nat

/-- the order `Graph.kruskal` sorts the candidates by (weight only; ties keep the listing order) -/
def wle (a b : WEdge) : Bool := decide (a.1 ≤ b.1)

/-- the relabelling of `Graph.kruskal` : every label `lb` becomes `la` -/
def relabel (lab : List Nat) (la lb : Nat) : List Nat := lab.map fun l => if l = lb then la else l

/-- one step of `Graph.kruskal` on the state (labels, chosen edges — newest first) -/
def kruskalStep (st : List Nat × List WEdge) (e : WEdge) : List Nat × List WEdge :=
  let (lab, ch) := st
  let la := lab.getD e.2.1 0
  let lb := lab.getD e.2.2 0
  if la = lb then st else (relabel lab la lb, e :: ch)

/-- the fold of `Graph.kruskal` over an arbitrary candidate list -/
def kruskalFold (es : List WEdge) (st : List Nat × List WEdge) : List Nat × List WEdge :=
  es.foldl kruskalStep st

/-- final state of `Graph.kruskal`'s fold: (labels, chosen edges newest first) -/
def Graph.kruskalState (g : Graph) : List Nat × List WEdge :=
  kruskalFold (sortBy wle g.wEdges) (List.range g.n, [])

/-- the label array at the end of Kruskal (`lab[u] = lab[v]` iff `u`, `v` are in one component) -/
def Graph.kruskalLabels (g : Graph) : List Nat := g.kruskalState.1

/-- the edges `Graph.kruskal` takes, in the order they are taken -/
def Graph.kruskalEdges (g : Graph) : List WEdge := g.kruskalState.2.reverse

/-- the representatives at the end: vertices that carry their own label (one per component) -/
def Graph.kruskalRoots (g : Graph) : List Nat :=
  (List.range g.n).filter fun r => g.kruskalLabels.getD r 0 == r

end MenpoModel.C14
