/-
C05 — executable model of menpo's `Vectorizable` protocol
(`as_vector`, `n_parameters`, `from_vector`, `_from_vector_inplace`) for every concrete
Vectorizable class of menpo.  Core Lean only (no Mathlib).

The model is written per *supplier* (the class whose `__dict__` provides a method) and is
assembled per class through the method-resolution table `expectedDispatch`, exactly as Python's
MRO does.  `Generated/C05Dispatch.lean` is regenerated from the live classes on every run and
`GenProps/C05.lean` proves `Generated.dispatch = expectedDispatch`, which is what makes the
theorems of `Props/C05.lean` statements about the current class hierarchy.

Scalars are `Rat` (every float64 is one).  Mutation is value passing: an in-place method
returns the new object.  Two variants exist where the unchanged tree violates the property
(DESIGN §7 #2–#5 and the UniformScale length check): the `coded` variant follows the code as
found, the `fixed` variant follows the proposed patches in `notes/fixes/C05-*.diff`.
The variant is a parameter (`Variant`) so both are executed by the driver and both are
quantified over by the theorems.
-/

namespace MenpoModel.C05

abbrev Vec := List Rat
abbrev Mat := List (List Rat)
/-- landmark groups carried by a Landmarkable object: (interned group name, flattened points) -/
abbrev Lms := List (Nat × List Rat)

inductive Err | value | notImpl | other
  deriving DecidableEq, Repr

/-- which behaviour is modelled at the five defect sites -/
structure Variant where
  affineRaises : Bool        -- #2  Affine._from_vector_inplace raises on a wrong length
  uscale1d : Bool            -- #3  UniformScale._as_vector returns shape (1,)
  texturedKeepsLms : Bool    -- #4  TexturedTriMesh.from_vector transfers the landmarks
  shapeLenCheck : Bool       -- #5  PointCloud._from_vector_inplace / TexturedTriMesh.from_vector check the length
  uscaleLenCheck : Bool      --     UniformScale._from_vector_inplace checks the length
  deriving DecidableEq, Repr

def coded : Variant := ⟨false, false, false, false, false⟩
def fixed : Variant := ⟨true, true, true, true, true⟩

/-! ## the classes and the method-resolution table -/

inductive Cls
  | PointCloud | PointUndirectedGraph | PointDirectedGraph | PointTree
  | LabelledPointUndirectedGraph | TriMesh | ColouredTriMesh | TexturedTriMesh
  | Image | MaskedImage | BooleanImage
  | Homogeneous | Affine | Similarity | Translation | UniformScale | NonUniformScale | Rotation
  | AlignmentAffine | AlignmentSimilarity | AlignmentTranslation | AlignmentUniformScale
  | AlignmentRotation
  | unknown
  deriving DecidableEq, Repr

/-- classes that supply one of the tabulated methods -/
inductive Sup
  | Copyable | Vectorizable | PointCloud | LabelledPointUndirectedGraph | TexturedTriMesh
  | Image | MaskedImage | BooleanImage
  | Homogeneous | HomogFamilyAlignment | Affine | AlignmentAffine | Similarity | AlignmentSimilarity
  | Translation | AlignmentTranslation | UniformScale | AlignmentUniformScale | NonUniformScale
  | Rotation | AlignmentRotation
  | absent | unknown
  deriving DecidableEq, Repr

/-- one row per concrete class: who supplies which method -/
structure Row where
  cls : Cls
  fromVector : Sup        -- `from_vector`
  fvi : Sup               -- `_from_vector_inplace`
  asVector : Sup          -- `_as_vector`
  copy : Sup              -- `copy`
  nParams : Sup           -- `n_parameters`
  setH : Sup              -- `_set_h_matrix`
  setRot : Sup            -- `set_rotation_matrix`
  deriving DecidableEq, Repr

def expectedDispatch : List Row := [
  ⟨.PointCloud, .Vectorizable, .PointCloud, .PointCloud, .Copyable, .Vectorizable, .absent, .absent⟩,
  ⟨.PointUndirectedGraph, .Vectorizable, .PointCloud, .PointCloud, .Copyable, .Vectorizable, .absent, .absent⟩,
  ⟨.PointDirectedGraph, .Vectorizable, .PointCloud, .PointCloud, .Copyable, .Vectorizable, .absent, .absent⟩,
  ⟨.PointTree, .Vectorizable, .PointCloud, .PointCloud, .Copyable, .Vectorizable, .absent, .absent⟩,
  ⟨.LabelledPointUndirectedGraph, .Vectorizable, .PointCloud, .PointCloud, .LabelledPointUndirectedGraph, .Vectorizable, .absent, .absent⟩,
  ⟨.TriMesh, .Vectorizable, .PointCloud, .PointCloud, .Copyable, .Vectorizable, .absent, .absent⟩,
  ⟨.ColouredTriMesh, .Vectorizable, .PointCloud, .PointCloud, .Copyable, .Vectorizable, .absent, .absent⟩,
  ⟨.TexturedTriMesh, .TexturedTriMesh, .PointCloud, .PointCloud, .Copyable, .Vectorizable, .absent, .absent⟩,
  ⟨.Image, .Image, .Image, .Image, .Copyable, .Vectorizable, .absent, .absent⟩,
  ⟨.MaskedImage, .MaskedImage, .MaskedImage, .MaskedImage, .Copyable, .Vectorizable, .absent, .absent⟩,
  ⟨.BooleanImage, .BooleanImage, .Image, .Image, .Copyable, .Vectorizable, .absent, .absent⟩,
  ⟨.Homogeneous, .Homogeneous, .Homogeneous, .Homogeneous, .Copyable, .Vectorizable, .Homogeneous, .absent⟩,
  ⟨.Affine, .Homogeneous, .Affine, .Affine, .Copyable, .Affine, .Affine, .absent⟩,
  ⟨.Similarity, .Homogeneous, .Similarity, .Similarity, .Copyable, .Similarity, .Affine, .absent⟩,
  ⟨.Translation, .Homogeneous, .Translation, .Translation, .Copyable, .Translation, .Affine, .absent⟩,
  ⟨.UniformScale, .Homogeneous, .UniformScale, .UniformScale, .Copyable, .UniformScale, .Affine, .absent⟩,
  ⟨.NonUniformScale, .Homogeneous, .NonUniformScale, .NonUniformScale, .Copyable, .NonUniformScale, .Affine, .absent⟩,
  ⟨.Rotation, .Homogeneous, .Rotation, .Rotation, .Copyable, .Rotation, .Affine, .Rotation⟩,
  ⟨.AlignmentAffine, .Homogeneous, .Affine, .Affine, .HomogFamilyAlignment, .Affine, .AlignmentAffine, .absent⟩,
  ⟨.AlignmentSimilarity, .Homogeneous, .AlignmentSimilarity, .Similarity, .HomogFamilyAlignment, .Similarity, .Affine, .absent⟩,
  ⟨.AlignmentTranslation, .Homogeneous, .AlignmentTranslation, .Translation, .HomogFamilyAlignment, .Translation, .Affine, .absent⟩,
  ⟨.AlignmentUniformScale, .Homogeneous, .AlignmentUniformScale, .UniformScale, .HomogFamilyAlignment, .UniformScale, .Affine, .absent⟩,
  ⟨.AlignmentRotation, .Homogeneous, .Rotation, .Rotation, .HomogFamilyAlignment, .Rotation, .Affine, .AlignmentRotation⟩ ]

def noRow : Row := ⟨.unknown, .unknown, .unknown, .unknown, .unknown, .unknown, .unknown, .unknown⟩

def rowOf (c : Cls) : Row := (expectedDispatch.find? (fun r => r.cls == c)).getD noRow

/-! ## list helpers -/

/-- `n` consecutive chunks of length `k` (numpy `reshape((n, k))` of a C-ordered vector) -/
def chunks {α} (k : Nat) : Nat → List α → List (List α)
  | 0, _ => []
  | n+1, l => l.take k :: chunks k n (l.drop k)

/-- elements at the `true` positions, in order (numpy boolean indexing, raster order) -/
def maskFilter {α} : List α → List Bool → List α
  | x :: xs, b :: bs => if b then x :: maskFilter xs bs else maskFilter xs bs
  | _, _ => []

def countTrue : List Bool → Nat
  | [] => 0
  | b :: bs => (if b then 1 else 0) + countTrue bs

/-- number of `true` strictly before position `v` -/
def rank : List Bool → Nat → Nat
  | _, 0 => 0
  | [], _ => 0
  | b :: bs, v+1 => (if b then 1 else 0) + rank bs v

/-- `out = zeros; out[mask] = xs` -/
def scatter {α} (z : α) : List Bool → List α → List α
  | [], _ => []
  | true :: ms, x :: xs => x :: scatter z ms xs
  | true :: ms, [] => z :: scatter z ms []
  | false :: ms, xs => z :: scatter z ms xs

def allTrue (m : List Bool) : Bool := m.all id

def prod (l : List Nat) : Nat := l.foldr (· * ·) 1

/-! ## shapes (PointCloud and subclasses)

`points` is the C-order ravel of the `(n, d)` array.  Everything else is carried state:
`nVert` = the number of vertices the per-vertex components (adjacency matrix side, colours rows,
tcoords rows, label-mask length) are sized for, `tris` = flattened trilist, `extra` = an opaque
token for the values of connectivity / labels / texture, `lms` = landmark groups. -/

structure Shape where
  cls : Cls
  d : Nat
  points : Vec
  nVert : Nat
  tris : List Nat
  extra : Nat
  lms : Lms
  deriving DecidableEq, Repr

def Shape.nPoints (s : Shape) : Nat := s.points.length / s.d

def isGraphCls : Cls → Bool
  | .PointUndirectedGraph | .PointDirectedGraph | .PointTree | .LabelledPointUndirectedGraph => true
  | _ => false
def isMeshCls : Cls → Bool
  | .TriMesh | .ColouredTriMesh | .TexturedTriMesh => true
  | _ => false
def hasPerVertex : Cls → Bool
  | .ColouredTriMesh | .TexturedTriMesh => true
  | c => isGraphCls c
def isShapeCls (c : Cls) : Bool := c == .PointCloud || isGraphCls c || isMeshCls c

/-- class invariant: what the class's own constructor / queries require -/
def Shape.wf (s : Shape) : Bool :=
  decide (0 < s.d) && s.points.length % s.d == 0 &&
  (!hasPerVertex s.cls || s.nVert == s.nPoints) &&
  (!isMeshCls s.cls || s.tris.all (fun t => decide (t < s.nPoints)))

/-- `PointCloud._as_vector`: `self.points.ravel()` -/
def Shape.asVec (s : Shape) : Vec := s.points

/-- `PointCloud._from_vector_inplace`: `self.points = vector.reshape([-1, self.n_dims])` -/
def pointCloudFvi (V : Variant) (s : Shape) (v : Vec) : Except Err Shape :=
  if V.shapeLenCheck && v.length != s.points.length then .error .value
  else if s.d = 0 then .error .value
  else if v.length % s.d ≠ 0 then .error .value
  else .ok { s with points := v }

/-- `TexturedTriMesh.from_vector`: rebuild through the constructor (trilist, tcoords, texture
from self); the coded version does not transfer the landmarks -/
def texturedFromVector (V : Variant) (s : Shape) (v : Vec) : Except Err Shape :=
  if V.shapeLenCheck && v.length != s.points.length then .error .value
  else if s.d = 0 then .error .value
  else if v.length % s.d ≠ 0 then .error .value
  else .ok { s with points := v, lms := if V.texturedKeepsLms then s.lms else [] }

/-- `from_vector` of a shape, assembled through the table: `Vectorizable.from_vector` is
`copy()` followed by `_from_vector_inplace` (in the value model `copy` is the identity) -/
def Shape.fromVec (V : Variant) (s : Shape) (v : Vec) : Except Err Shape :=
  let r := rowOf s.cls
  match r.fromVector with
  | .TexturedTriMesh => texturedFromVector V s v
  | .Vectorizable => match r.fvi with
    | .PointCloud => pointCloudFvi V s v
    | _ => .error .other
  | _ => .error .other

def Shape.nParams (s : Shape) : Nat := s.asVec.length

/-! ## images

`chans` = one raster-ordered (C-order) list per channel; the C-order ravel of the
`(n_channels, *shape)` pixel array is `chans.flatten`. -/

structure Img where
  cls : Cls
  shape : List Nat
  chans : List (List Rat)
  mask : List Bool
  lms : Lms
  deriving DecidableEq, Repr

def Img.nPix (x : Img) : Nat := prod x.shape
def Img.nCh (x : Img) : Nat := x.chans.length

def Img.wf (x : Img) : Bool :=
  x.chans.all (fun c => c.length == x.nPix) &&
  (x.cls != .MaskedImage || x.mask.length == x.nPix) &&
  (x.cls != .BooleanImage || (x.nCh == 1 && x.chans.all (fun c => c.all (fun p => p == 0 || p == 1))))

/-- `Image._as_vector`: `self.pixels.ravel()` -/
def imageAsVec (x : Img) : Vec := x.chans.flatten

/-- `MaskedImage._as_vector`: `self.masked_pixels().ravel()` where `masked_pixels` is
`self.pixels` for an all-true mask and `self.pixels[..., self.mask.mask]` otherwise -/
def maskedAsVec (x : Img) : Vec :=
  if allTrue x.mask then x.chans.flatten
  else (x.chans.map (fun c => maskFilter c x.mask)).flatten

def Img.asVec (x : Img) : Vec :=
  match (rowOf x.cls).asVector with
  | .MaskedImage => maskedAsVec x
  | _ => imageAsVec x

/-- `Image.from_vector`: `vector.reshape((n_channels,) + self.shape)`, landmarks transferred -/
def imageFromVector (x : Img) (v : Vec) : Except Err Img :=
  if v.length = x.nCh * x.nPix then .ok { x with chans := chunks x.nPix x.nCh v } else .error .value

def toBool (r : Rat) : Rat := if r = 0 then 0 else 1

/-- `BooleanImage.from_vector`: `BooleanImage(vector.reshape(self.shape))` (coerced to bool) -/
def booleanFromVector (x : Img) (v : Vec) : Except Err Img :=
  if v.length = x.nPix then .ok { x with chans := [v.map toBool] } else .error .value

/-- `MaskedImage.from_vector` -/
def maskedFromVector (x : Img) (v : Vec) : Except Err Img :=
  if allTrue x.mask then
    if v.length = x.nCh * x.nPix then .ok { x with chans := chunks x.nPix x.nCh v } else .error .value
  else if x.nCh = 0 then .error .value
  else if v.length % x.nCh ≠ 0 then .error .value          -- vector.reshape((n_channels, -1))
  else
    let k := v.length / x.nCh
    let rows := chunks k x.nCh v
    if k = countTrue x.mask then                              -- image_data[..., mask] = rows
      .ok { x with chans := rows.map (scatter 0 x.mask) }
    else if k = 1 then                                        -- numpy broadcasts (c,1) to (c,n_true)
      .ok { x with chans := rows.map (fun r => scatter 0 x.mask (List.replicate (countTrue x.mask) (r.headD 0))) }
    else .error .value

def Img.fromVec (x : Img) (v : Vec) : Except Err Img :=
  match (rowOf x.cls).fromVector with
  | .Image => imageFromVector x v
  | .BooleanImage => booleanFromVector x v
  | .MaskedImage => maskedFromVector x v
  | _ => .error .other

def Img.nParams (x : Img) : Nat := x.asVec.length

/-! ### the options of the image entry points: `as_vector(keep_channels=True)`, `from_vector(v, n_channels=k)` -/

/-- `as_vector(keep_channels=True)`: the `(n_channels, -1)` array, one row per channel
(`pixels.reshape([n_channels, -1])`, for a MaskedImage `masked_pixels().reshape([n_channels, -1])`) -/
def Img.asVecKeep (x : Img) : List (List Rat) :=
  match (rowOf x.cls).asVector with
  | .MaskedImage => if allTrue x.mask then x.chans else x.chans.map (fun c => maskFilter c x.mask)
  | _ => x.chans

/-- `Image.from_vector(vector, n_channels=k)`: `vector.reshape((k,) + self.shape)` -/
def imageFromVectorN (x : Img) (k : Nat) (v : Vec) : Except Err Img :=
  if v.length = k * x.nPix then .ok { x with chans := chunks x.nPix k v } else .error .value

/-- `MaskedImage.from_vector(vector, n_channels=k)`: `maskedFromVector` with `k` in the place of `n_channels` -/
def maskedFromVectorN (x : Img) (k : Nat) (v : Vec) : Except Err Img :=
  if allTrue x.mask then
    if v.length = k * x.nPix then .ok { x with chans := chunks x.nPix k v } else .error .value
  else if k = 0 then .error .value
  else if v.length % k ≠ 0 then .error .value
  else
    let w := v.length / k
    let rows := chunks w k v
    if w = countTrue x.mask then
      .ok { x with chans := rows.map (scatter 0 x.mask) }
    else if w = 1 then
      .ok { x with chans := rows.map (fun r => scatter 0 x.mask (List.replicate (countTrue x.mask) (r.headD 0))) }
    else .error .value

/-- `from_vector(v, n_channels=k)` through the table (`BooleanImage.from_vector` has no such parameter) -/
def Img.fromVecN (x : Img) (k : Nat) (v : Vec) : Except Err Img :=
  match (rowOf x.cls).fromVector with
  | .Image => imageFromVectorN x k v
  | .MaskedImage => maskedFromVectorN x k v
  | _ => .error .other

/-- the receiver with `k` blank channels: `from_vector(v, n_channels=k)` only looks at shape, mask and landmarks -/
def Img.blank (x : Img) (k : Nat) : Img := { x with chans := List.replicate k (List.replicate x.nPix 0) }

/-! ## homogeneous transforms

`h` = the homogeneous matrix as rows; `[]` stands for Python's `None`.  Alignment classes
also hold `src` / `tgt` point rows. -/

structure Xf where
  cls : Cls
  h : Mat
  src : Mat
  tgt : Mat
  deriving DecidableEq, Repr

def isAlignCls : Cls → Bool
  | .AlignmentAffine | .AlignmentSimilarity | .AlignmentTranslation | .AlignmentUniformScale
  | .AlignmentRotation => true
  | _ => false

def dot : Vec → Vec → Rat
  | x :: xs, y :: ys => x * y + dot xs ys
  | _, _ => 0

/-- `Affine._apply` on one point: `np.dot(x, linear.T) + translation` -/
def applyPoint (h : Mat) (x : Vec) : Vec :=
  h.dropLast.map (fun row => dot (row.take x.length) x + row.getD x.length 0)

def applyAff (h : Mat) (pts : Mat) : Except Err Mat :=
  if h = [] then .error .other                       -- `None` matrix: TypeError
  else if pts.all (fun p => p.length + 1 == h.length) then .ok (pts.map (applyPoint h))
  else .error .value                                 -- shapes not aligned

/-- `_sync_target_from_state`: the new target is the aligned source -/
def syncTarget (x : Xf) : Except Err Xf :=
  match applyAff x.h x.src with
  | .ok t => .ok { x with tgt := t }
  | .error e => .error e

/-- `self._set_h_matrix(value, skip_checks=True)` dispatched through the table:
`AlignmentAffine._set_h_matrix` re-syncs the target, `Affine`/`Homogeneous` just store. -/
def setH (r : Row) (x : Xf) (hn : Mat) : Except Err Xf :=
  match r.setH with
  | .AlignmentAffine => syncTarget { x with h := hn }
  | .Affine | .Homogeneous => .ok { x with h := hn }
  | _ => .error .other

/-- `Homogeneous._as_vector`: `self.h_matrix.ravel()` -/
def homogAsVec (h : Mat) : Except Err Vec := .ok h.flatten

/-- `Affine._as_vector`: `(h - eye)[:n_dims, :].ravel(order='F')` (2-D and 3-D) -/
def affineAsVec (h : Mat) : Except Err Vec :=
  match h with
  | [[a, b, c], [d, e, f], [_, _, _]] => .ok [a - 1, d, b, e - 1, c, f]
  | [[a, b, c, t], [d, e, f, u], [g, i, j, w], [_, _, _, _]] =>
      .ok [a - 1, d, g, b, e - 1, i, c, f, j - 1, t, u, w]
  | _ => .error .other

/-- `Similarity._as_vector`: 2-D `[a, b, tx, ty]`; 3-D not implemented -/
def similarityAsVec (h : Mat) : Except Err Vec :=
  match h with
  | [[a, _, c], [d, _, f], [_, _, _]] => .ok [a - 1, d, c, f]
  | [_, _, _, _] => .error .notImpl
  | _ => .error .value

/-- `Translation._as_vector`: `self.h_matrix[:-1, -1]` -/
def translationAsVec (h : Mat) : Except Err Vec := .ok (h.dropLast.map (fun r => r.getLastD 0))

def diagAux : Nat → Mat → Vec
  | _, [] => []
  | i, r :: rs => r.getD i 0 :: diagAux (i+1) rs
def diag (h : Mat) : Vec := diagAux 0 h

/-- `NonUniformScale._as_vector`: `self.h_matrix.diagonal()[:-1].copy()` -/
def nonUniformScaleAsVec (h : Mat) : Except Err Vec := .ok (diag h).dropLast

/-- `UniformScale._as_vector`: `np.asarray(self.h_matrix[0, 0])` -/
def uniformScaleAsVec (h : Mat) : Except Err Vec := .ok [(h.headD []).headD 0]

/-- the symmetric matrix `K` whose top eigenvector `Rotation._as_vector` asks `eigh` for
(`eigh` reads the lower triangle that the code fills in) -/
def rotK (h : Mat) : Option Mat :=
  match h with
  | [[m00, m01, m02, _], [m10, m11, m12, _], [m20, m21, m22, _], [_, _, _, _]] =>
    some [[(m00 - m11 - m22) / 3, (m01 + m10) / 3, (m02 + m20) / 3, (m21 - m12) / 3],
          [(m01 + m10) / 3, (m11 - m00 - m22) / 3, (m12 + m21) / 3, (m02 - m20) / 3],
          [(m02 + m20) / 3, (m12 + m21) / 3, (m22 - m00 - m11) / 3, (m10 - m01) / 3],
          [(m21 - m12) / 3, (m02 - m20) / 3, (m10 - m01) / 3, (m00 + m11 + m22) / 3]]
  | _ => none

/-- `Rotation._as_vector` with `eigh` as a contract parameter: `eig K` is the eigenvector
`V[:, argmax w]`; the code permutes it to `[3,0,1,2]` and makes the first entry non-negative -/
def rotationAsVec (eig : Mat → Vec) (h : Mat) : Except Err Vec :=
  match rotK h with
  | none => .error .notImpl
  | some K => match eig K with
    | [e0, e1, e2, e3] => if e3 < 0 then .ok [-e3, -e0, -e1, -e2] else .ok [e3, e0, e1, e2]
    | _ => .error .other

/-- `_as_vector` assembled through the table (`eig` only matters for rotations) -/
def Xf.asVecWith (eig : Mat → Vec) (x : Xf) : Except Err Vec :=
  match (rowOf x.cls).asVector with
  | .Homogeneous => homogAsVec x.h
  | .Affine => affineAsVec x.h
  | .Similarity => similarityAsVec x.h
  | .Translation => translationAsVec x.h
  | .UniformScale => uniformScaleAsVec x.h
  | .NonUniformScale => nonUniformScaleAsVec x.h
  | .Rotation => rotationAsVec eig x.h
  | _ => .error .other

/-- number of array dimensions of what `_as_vector` returns -/
def Xf.asVecNdim (V : Variant) (x : Xf) : Nat :=
  match (rowOf x.cls).asVector with
  | .UniformScale => if V.uscale1d then 1 else 0
  | _ => 1

/-- `n_parameters` assembled through the table -/
def Xf.nParams (x : Xf) : Except Err Nat :=
  let d := x.h.length - 1
  match (rowOf x.cls).nParams with
  | .Vectorizable => .ok x.h.flatten.length       -- `self.as_vector().shape[0]` (Homogeneous)
  | .Affine => .ok (d * (d + 1))
  | .Similarity => if d = 2 then .ok 4 else if d = 3 then .error .notImpl else .error .value
  | .Translation => .ok d
  | .UniformScale => .ok 1
  | .NonUniformScale => .ok d
  | .Rotation => if d = 3 then .ok 4 else .error .notImpl
  | _ => .error .other

/-- value used by `a.flat[::step] = val` at diagonal position `i` (numpy repeats / truncates
`val`; an empty `val` assigns nothing) -/
def cyc (v : Vec) (i : Nat) (old : Rat) : Rat :=
  if v.length = 0 then old else v.getD (i % v.length) old

def fillDiagAux (v : Vec) : Nat → Mat → Mat
  | _, [] => []
  | i, r :: rs => r.set i (cyc v i (r.getD i 0)) :: fillDiagAux v (i+1) rs

/-- `np.fill_diagonal(h, v); h[-1, -1] = 1` -/
def fillDiagOne (h : Mat) (v : Vec) : Mat :=
  let g := fillDiagAux v 0 h
  match g.getLast? with
  | none => g
  | some r => g.dropLast ++ [r.set (g.length - 1) 1]

/-- `Homogeneous._from_vector_inplace`: `vector.reshape(self.h_matrix.shape)` -/
def homogFvi (r : Row) (x : Xf) (v : Vec) : Except Err Xf :=
  let rows := x.h.length
  let cols := (x.h.headD []).length
  if v.length = rows * cols then setH r x (chunks cols rows v) else .error .value

/-- `Affine._from_vector_inplace` (6 → 2-D, 12 → 3-D, Fortran order, deltas from identity);
the coded version builds the `ValueError` for other lengths and forgets `raise`, so `None`
reaches `_set_h_matrix` -/
def affineFvi (V : Variant) (r : Row) (x : Xf) (p : Vec) : Except Err Xf :=
  match p with
  | [p1, p2, p3, p4, p5, p6] => setH r x [[1 + p1, p3, p5], [p2, 1 + p4, p6], [0, 0, 1]]
  | [p1, p2, p3, p4, p5, p6, p7, p8, p9, p10, p11, p12] =>
      setH r x [[1 + p1, p4, p7, p10], [p2, 1 + p5, p8, p11], [p3, p6, 1 + p9, p12], [0, 0, 0, 1]]
  | _ => if V.affineRaises then .error .value else setH r x []

/-- `Similarity._from_vector_inplace` -/
def similarityFvi (r : Row) (x : Xf) (p : Vec) : Except Err Xf :=
  match p with
  | [a, b, tx, ty] => setH r x [[1 + a, -b, tx], [b, 1 + a, ty], [0, 0, 1]]
  | [_, _, _, _, _, _, _] => .error .notImpl
  | _ => .error .value

/-- `Translation._from_vector_inplace`: `self.h_matrix[:-1, -1] = p` (numpy broadcasts a
length-1 `p`) -/
def translationFvi (x : Xf) (p : Vec) : Except Err Xf :=
  let d := x.h.length - 1
  if p.length = d then
    .ok { x with h := (List.zipWith (fun row t => row.dropLast ++ [t]) x.h.dropLast p) ++ x.h.drop d }
  else if p.length = 1 then
    .ok { x with h := (x.h.dropLast.map (fun row => row.dropLast ++ [p.headD 0])) ++ x.h.drop d }
  else .error .value

/-- `UniformScale._from_vector_inplace`: `np.fill_diagonal(self.h_matrix, p); h[-1,-1] = 1` -/
def uniformScaleFvi (V : Variant) (x : Xf) (p : Vec) : Except Err Xf :=
  if V.uscaleLenCheck && p.length != 1 then .error .value
  else .ok { x with h := fillDiagOne x.h p }

/-- `NonUniformScale._from_vector_inplace`: the same two statements -/
def nonUniformScaleFvi (x : Xf) (p : Vec) : Except Err Xf :=
  .ok { x with h := fillDiagOne x.h p }

/-- `np.finfo(float).eps * 4.0` -/
def eps4 : Rat := mkRat 1 (2 ^ 50)

/-- the rotation matrix of a quaternion `[w, a, b, c]` as the code computes it:
`p *= sqrt(2/n); P = outer(p, p)` so `P[i,j] = 2 pᵢ pⱼ / n` -/
def quatMatrix (w a b c : Rat) : Mat :=
  let n := w * w + a * a + b * b + c * c
  let s := 2 / n
  [[1 - s * (b * b) - s * (c * c), s * (a * b) - s * (c * w), s * (a * c) + s * (b * w)],
   [s * (a * b) + s * (c * w), 1 - s * (a * a) - s * (c * c), s * (b * c) - s * (a * w)],
   [s * (a * c) - s * (b * w), s * (b * c) + s * (a * w), 1 - s * (a * a) - s * (b * b)]]

/-- `Rotation.set_rotation_matrix(value, skip_checks=True)`: `self._h_matrix[:-1, :-1] = value` -/
def setRotBase (h : Mat) (R : Mat) : Mat :=
  List.zipWith (fun hrow rrow => rrow ++ hrow.drop rrow.length) h.dropLast R ++ h.drop (h.length - 1)

def setRot (r : Row) (x : Xf) (R : Mat) : Except Err Xf :=
  match r.setRot with
  | .AlignmentRotation => syncTarget { x with h := setRotBase x.h R }
  | .Rotation => .ok { x with h := setRotBase x.h R }
  | _ => .error .other

/-- `Rotation._from_vector_inplace` (3-D only; a quaternion of norm² below `4 eps` returns
without touching the object) -/
def rotationFvi (r : Row) (x : Xf) (p : Vec) : Except Err Xf :=
  if x.h.length ≠ 4 then .error .notImpl
  else match p with
    | [w, a, b, c] =>
      if w * w + a * a + b * b + c * c < eps4 then .ok x
      else setRot r x (quatMatrix w a b c)
    | _ => .error .value

def bindSync (e : Except Err Xf) : Except Err Xf :=
  match e with
  | .ok y => syncTarget y
  | .error err => .error err

/-- `_from_vector_inplace` assembled through the table -/
def Xf.fvi (V : Variant) (x : Xf) (v : Vec) : Except Err Xf :=
  let r := rowOf x.cls
  match r.fvi with
  | .Homogeneous => homogFvi r x v
  | .Affine => affineFvi V r x v
  | .Similarity => similarityFvi r x v
  | .AlignmentSimilarity => bindSync (similarityFvi r x v)
  | .Translation => translationFvi x v
  | .AlignmentTranslation => bindSync (translationFvi x v)
  | .UniformScale => uniformScaleFvi V x v
  | .AlignmentUniformScale => bindSync (uniformScaleFvi V x v)
  | .NonUniformScale => nonUniformScaleFvi x v
  | .Rotation => rotationFvi r x v
  | _ => .error .other

/-- the receiver after a *failed* `_from_vector_inplace` (only observable through the deprecated public
`from_vector_inplace`; `from_vector` discards the half-updated copy): `AlignmentAffine._set_h_matrix` stores
the new matrix and only then re-syncs the target, so when the re-sync raises (a 12-vector on a 2-D alignment,
a 6-vector on a 3-D one) the new matrix stays; every other supplier raises before it touches the object -/
def Xf.afterFailedFvi (x : Xf) (v : Vec) : Xf :=
  let r := rowOf x.cls
  match r.fvi, r.setH with
  | .Affine, .AlignmentAffine =>
    (match v with
     | [p1, p2, p3, p4, p5, p6] => { x with h := [[1 + p1, p3, p5], [p2, 1 + p4, p6], [0, 0, 1]] }
     | [p1, p2, p3, p4, p5, p6, p7, p8, p9, p10, p11, p12] =>
       { x with h := [[1 + p1, p4, p7, p10], [p2, 1 + p5, p8, p11], [p3, p6, 1 + p9, p12], [0, 0, 0, 1]] }
     | _ => x)
  | _, _ => x

/-- `Homogeneous.from_vector`: `self.copy()` then `_from_vector_inplace` -/
def Xf.fromVec (V : Variant) (x : Xf) (v : Vec) : Except Err Xf :=
  match (rowOf x.cls).fromVector with
  | .Homogeneous => x.fvi V v
  | _ => .error .other

/-! ### class invariants of the transform classes (what "well-formed" means) -/

def isSquare (h : Mat) (n : Nat) : Bool := h.length == n && h.all (fun r => r.length == n)

def unitLast (n : Nat) : Vec := List.replicate (n - 1) 0 ++ [1]

/-- affine family: 3×3 or 4×4 with bottom row `[0 … 0 1]` -/
def affineWF (h : Mat) : Bool :=
  (isSquare h 3 || isSquare h 4) && h.getLast? == some (unitLast h.length)

def offDiagZeroAux : Nat → Mat → Bool
  | _, [] => true
  | i, r :: rs => ((r.set i 0).all (· == 0)) && offDiagZeroAux (i+1) rs
/-- the linear part (all rows but the last) is diagonal and there is no translation -/
def linearDiagonal (h : Mat) : Bool := offDiagZeroAux 0 h.dropLast

def allEq : Vec → Bool
  | [] => true
  | x :: xs => xs.all (· == x)

def Xf.wfH (c : Cls) (h : Mat) : Bool :=
  match c with
  | .Homogeneous =>          -- any rectangular matrix (n_dims_output + 1) × (n_dims + 1): projections included
      decide (2 ≤ h.length) && decide (2 ≤ (h.headD []).length) && h.all (fun r => r.length == (h.headD []).length)
  | .Affine | .AlignmentAffine => affineWF h
  | .Similarity | .AlignmentSimilarity => affineWF h &&
      (match h with
       | [[a, b, _], [d, e, _], _] => a == e && b == -d
       | _ => true)
  | .Translation | .AlignmentTranslation => affineWF h &&
      offDiagZeroAux 0 (h.dropLast.map (fun r => r.dropLast)) && (diag h).all (· == 1)
  | .UniformScale | .AlignmentUniformScale => affineWF h && linearDiagonal h && allEq (diag h).dropLast
  | .NonUniformScale => affineWF h && linearDiagonal h
  | .Rotation | .AlignmentRotation => affineWF h && (h.dropLast.all (fun r => r.getLastD 0 == 0))
  | _ => false

def Xf.wf (x : Xf) : Bool :=
  Xf.wfH x.cls x.h && (!isAlignCls x.cls ||
    (match applyAff x.h x.src with
     | .ok t => t == x.tgt
     | .error _ => false))

/-! ## the deprecated public mutator `from_vector_inplace`

`Vectorizable.from_vector_inplace(v)` warns and calls `self._from_vector_inplace(v)`: the receiver itself is
updated.  For the transforms and the shapes that is the supplier already modelled above (`Xf.fvi`,
`pointCloudFvi`; `TexturedTriMesh` has no in-place override, so it keeps its landmarks even as coded); for the
images the in-place suppliers differ from the `from_vector` rebuilders and are modelled here. -/

/-- `_from_vector_inplace` of a shape, through the table -/
def Shape.fvi (V : Variant) (s : Shape) (v : Vec) : Except Err Shape :=
  match (rowOf s.cls).fvi with
  | .PointCloud => pointCloudFvi V s v
  | _ => .error .other

/-- `Image._from_vector_inplace`: `self.pixels = vector.reshape(self.pixels.shape)` (copied).  BooleanImage
inherits it: nothing coerces the values to bool. -/
def imageFvi (x : Img) (v : Vec) : Except Err Img :=
  if v.length = x.nCh * x.nPix then .ok { x with chans := chunks x.nPix x.nCh v } else .error .value

/-- `old[mask] = xs` on one channel: the pixels under the mask take consecutive values of `xs`, the others
keep what they had -/
def overlay {α} : List Bool → List α → List α → List α
  | true :: ms, _ :: os, x :: xs => x :: overlay ms os xs
  | true :: ms, o :: os, [] => o :: overlay ms os []
  | false :: ms, o :: os, xs => o :: overlay ms os xs
  | _, _, _ => []

/-- numpy broadcasting of a `(c, 1)` array to `(c, n)` -/
def broadcastRows (n : Nat) (rows : List (List Rat)) : List (List Rat) :=
  rows.map (fun r => List.replicate n (r.headD 0))

/-- `MaskedImage._from_vector_inplace`: `self._set_masked_pixels(vector.reshape((n_channels, -1)))`:
all-true mask → reshape to the image and rebind; otherwise `self.pixels[..., mask] = rows` in place -/
def maskedFvi (x : Img) (v : Vec) : Except Err Img :=
  if x.nCh = 0 then .error .value
  else if v.length % x.nCh ≠ 0 then .error .value
  else if allTrue x.mask then
    if v.length = x.nCh * x.nPix then .ok { x with chans := chunks x.nPix x.nCh v } else .error .value
  else
    let k := v.length / x.nCh
    let rows := chunks k x.nCh v
    if k = countTrue x.mask then
      .ok { x with chans := List.zipWith (overlay x.mask) x.chans rows }
    else if k = 1 then
      let bc := broadcastRows (countTrue x.mask) rows
      .ok { x with chans := List.zipWith (overlay x.mask) x.chans bc }
    else .error .value

/-- `_from_vector_inplace` of an image, through the table -/
def Img.fvi (x : Img) (v : Vec) : Except Err Img :=
  match (rowOf x.cls).fvi with
  | .Image => imageFvi x v
  | .MaskedImage => maskedFvi x v
  | _ => .error .other

/-! ## dtypes: whose dtype the rebuilt array has

numpy decides the dtype of `from_vector(v)`'s array by how the supplier builds it: a reshape of the vector
(`vec`), a fresh `np.eye` (`float64`), an assignment into an existing buffer (`own`), a coercion (`bool`). -/

inductive Dt | bool | uint8 | int64 | float32 | float64 | other
  deriving DecidableEq, Repr

/-- dtype of the receiver's array after `_from_vector_inplace`; `full` = the mask is all true (MaskedImage) -/
def fviDtype (s : Sup) (full : Bool) (own vec : Dt) : Dt :=
  match s with
  | .PointCloud | .Image | .Homogeneous => vec
  | .MaskedImage => if full then vec else own
  | .Affine | .Similarity | .AlignmentSimilarity => .float64
  | .Translation | .AlignmentTranslation | .UniformScale | .AlignmentUniformScale
  | .NonUniformScale | .Rotation => own
  | _ => .other

/-- dtype of the array (points / pixels / h_matrix) of `from_vector(v)`, through the table -/
def fromVecDtype (r : Row) (full : Bool) (own vec : Dt) : Dt :=
  match r.fromVector with
  | .BooleanImage => .bool
  | .Image | .MaskedImage | .TexturedTriMesh => vec
  | .Vectorizable | .Homogeneous => fviDtype r.fvi full own vec
  | _ => .other

/-- dtype of `_as_vector()` given the dtype of the object's array -/
def asVecDtype (r : Row) (own : Dt) : Dt :=
  match r.asVector with
  | .PointCloud | .Image | .MaskedImage | .Homogeneous | .Translation | .UniformScale | .NonUniformScale => own
  | .Affine | .Similarity | .Rotation => .float64
  | _ => .other

/-! ## receiver purity and receiver mutation, on a heap

The value model above cannot express "the receiver is unchanged" (it is a function).  What can go
wrong in the code is aliasing: `_from_vector_inplace` of some suppliers writes *into* an existing
buffer (`h_matrix[:-1, -1] = p`, `np.fill_diagonal(h_matrix, p)`, `pixels[..., mask] = …`) and
`HomogFamilyAlignment.copy` is deliberately shallow for everything but `_h_matrix`.  The tables
below record, per supplier, the buffers written in place and the attributes rebound and, per `copy`
supplier, the buffers that are fresh in the copy.  They are not taken on trust: `expectedEffects`
assembles them per class through the method-resolution table and `GenProps/C05.lean` proves that
it equals `Generated.effects`, measured on instrumented live objects on every run
(harness/extract_c05.py).  `rowPure` is the resulting per-class obligation; `from_vector_pure_heap`
and the program theorems of Props/C05.lean are the heap theorems it feeds. -/

/-- the array buffers of an object: coordinates, pixels, homogeneous matrix, the point arrays of an
alignment's target and source, the mask of a masked image, and `carried` = every other array the
object reaches (connectivity, colours, texture, tcoords, label masks, landmarks) -/
inductive Buf | points | pixels | hMatrix | target | source | mask | carried
  deriving DecidableEq, Repr

def allBufs : List Buf := [.points, .pixels, .hMatrix, .target, .source, .mask, .carried]

/-- the buffers an object of this class holds -/
def bufsOf (c : Cls) : List Buf :=
  if isShapeCls c then [.points, .carried]
  else if c == .MaskedImage then [.pixels, .mask, .carried]
  else if c == .Image || c == .BooleanImage then [.pixels, .carried]
  else if isAlignCls c then [.hMatrix, .target, .source]
  else if c == .unknown then []
  else [.hMatrix]

/-- buffers `_from_vector_inplace` of this supplier writes into in place (some branch of it does);
`none` = supplier not modelled -/
def writesInto : Sup → Option (List Buf)
  | .PointCloud | .Image => some []
  | .MaskedImage => some [.pixels]
  | .Homogeneous | .Affine | .Similarity | .AlignmentSimilarity => some []
  | .Translation | .AlignmentTranslation | .UniformScale | .AlignmentUniformScale
  | .NonUniformScale | .Rotation => some [.hMatrix]
  | _ => none

/-- attributes `_from_vector_inplace` of this supplier rebinds to a new array (`self.points = …`,
`self.pixels = …`, `self._set_h_matrix(…)`, `_sync_target_from_state()`), not counting what the
`_set_h_matrix` / `set_rotation_matrix` it calls adds (see `rowRebinds`) -/
def rebindsOf : Sup → List Buf
  | .PointCloud => [.points]
  | .Image | .MaskedImage => [.pixels]
  | .Homogeneous | .Affine | .Similarity => [.hMatrix]
  | .AlignmentSimilarity => [.hMatrix, .target]
  | .AlignmentTranslation | .AlignmentUniformScale => [.target]
  | _ => []

def callsSetH : Sup → Bool
  | .Homogeneous | .Affine | .Similarity | .AlignmentSimilarity => true
  | _ => false

/-- everything the class's `_from_vector_inplace` rebinds: `AlignmentAffine._set_h_matrix` and
`AlignmentRotation.set_rotation_matrix` re-sync (rebind) the target -/
def rowRebinds (r : Row) : List Buf :=
  rebindsOf r.fvi ++
  (if callsSetH r.fvi && r.setH == .AlignmentAffine then [.target] else []) ++
  (if r.fvi == .Rotation && r.setRot == .AlignmentRotation then [.target] else [])

/-- buffers that are fresh (deep-copied) in the result of this supplier's `copy` -/
def copyFresh : Sup → Buf → Bool
  | .Copyable, _ => true
  | .LabelledPointUndirectedGraph, _ => true
  | .HomogFamilyAlignment, .hMatrix => true
  | _, _ => false

/-- `from_vector` overrides that rebuild through a constructor and never touch `self` -/
def isRebuilder : Sup → Bool
  | .Image | .MaskedImage | .BooleanImage | .TexturedTriMesh => true
  | _ => false

def rowPure (r : Row) : Bool :=
  isRebuilder r.fromVector ||
  ((r.fromVector == .Vectorizable || r.fromVector == .Homogeneous) &&
    (match writesInto r.fvi with
     | some ws => ws.all (copyFresh r.copy)
     | none => false))

/-- what is measured on the live objects of one class (all lists in `allBufs` order) -/
structure EffRow where
  cls : Cls
  has : List Buf          -- the buffers the specimens hold
  fresh : List Buf        -- not sharing memory with the original after `copy()`
  fviWrites : List Buf    -- old array changed by `_from_vector_inplace`
  fviRebinds : List Buf   -- attribute refers to a new array after `_from_vector_inplace`
  fvWrites : List Buf     -- receiver array changed by `from_vector` (purity: must be empty)
  fvShares : List Buf     -- arrays of the result of `from_vector` sharing memory with the receiver
  deriving DecidableEq, Repr

/-- the same row, predicted by the model from the method-resolution table -/
def effOfRow (r : Row) : EffRow :=
  let has := bufsOf r.cls
  let rb := rowRebinds r
  { cls := r.cls
    has := has
    fresh := has.filter (copyFresh r.copy)
    fviWrites := has.filter (fun b => ((writesInto r.fvi).getD allBufs).contains b)
    fviRebinds := has.filter (fun b => rb.contains b)
    fvWrites := []
    fvShares := if isRebuilder r.fromVector then []
                else has.filter (fun b => !copyFresh r.copy b && !rb.contains b) }

def expectedEffects : List EffRow := expectedDispatch.map effOfRow

/-- the buffers some `_from_vector_inplace` writes in place -/
def writable (b : Buf) : Bool :=
  expectedDispatch.any (fun r => ((writesInto r.fvi).getD allBufs).contains b)

/-- every in-place write goes to a writable buffer (by definition) and the class's `copy` makes every
writable buffer fresh: what keeps in-place updates of one object invisible through every other -/
def rowAdm (r : Row) : Bool :=
  ((writesInto r.fvi).getD allBufs).all writable &&
  (bufsOf r.cls).all (fun b => !writable b || copyFresh r.copy b || isRebuilder r.fromVector)

structure Heap where
  cell : Nat → List Rat
  next : Nat

abbrev Obj := Buf → Nat

def nBufs : Nat := 7

def bufIndex : Buf → Nat
  | .points => 0 | .pixels => 1 | .hMatrix => 2 | .target => 3 | .source => 4 | .mask => 5 | .carried => 6

def bufAt : Nat → Option Buf
  | 0 => some .points | 1 => some .pixels | 2 => some .hMatrix | 3 => some .target | 4 => some .source
  | 5 => some .mask | 6 => some .carried | _ => none

/-- `copy()`: a new cell with the same content for every fresh buffer (cell `next + index`),
the same cell otherwise -/
def heapCopy (fresh : Buf → Bool) (H : Heap) (o : Obj) : Heap × Obj :=
  (⟨fun a => if a < H.next then H.cell a
      else match bufAt (a - H.next) with
        | some b => H.cell (o b)
        | none => [], H.next + nBufs⟩,
   fun b => if fresh b then H.next + bufIndex b else o b)

/-- attribute rebinding: the object refers to a new cell holding the new value; the old cell is left alone -/
def heapRebind (rebinds : List Buf) (new : Buf → List Rat) (H : Heap) (o : Obj) : Heap × Obj :=
  (⟨fun a => if a < H.next then H.cell a
      else match bufAt (a - H.next) with
        | some b => if rebinds.contains b then new b else []
        | none => [], H.next + nBufs⟩,
   fun b => if rebinds.contains b then H.next + bufIndex b else o b)

def heapWrite (H : Heap) (a : Nat) (v : List Rat) : Heap :=
  ⟨fun x => if x = a then v else H.cell x, H.next⟩

/-- the in-place update: one write per buffer in `writes`, through the object's own references -/
def heapUpdate (writes : List Buf) (new : Buf → List Rat) (H : Heap) (o : Obj) : Heap :=
  writes.foldl (fun H b => heapWrite H (o b) (new b)) H

/-! ### programs of `from_vector` / `from_vector_inplace` calls on a population of objects -/

/-- one call: `objs[recv].from_vector(v)` (`inplace = false`: the resolved `copy()`, then the in-place update
on the copy, which becomes a new object) or `objs[recv].from_vector_inplace(v)` (`inplace = true`: the update
on the receiver itself).  `new` = the new contents, `rebinds` / `writes` = how the supplier installs them. -/
structure Step where
  recv : Nat
  inplace : Bool
  fresh : Buf → Bool
  rebinds : List Buf
  writes : List Buf
  new : Buf → List Rat

structure World where
  heap : Heap
  objs : Nat → Obj
  n : Nat

/-- heap and references the update works on: the receiver itself, or its copy -/
def Step.base (s : Step) (W : World) : Heap × Obj :=
  if s.inplace then (W.heap, W.objs s.recv) else heapCopy s.fresh W.heap (W.objs s.recv)

def Step.rebound (s : Step) (W : World) : Heap × Obj :=
  heapRebind s.rebinds s.new (s.base W).1 (s.base W).2

def World.exec (W : World) (s : Step) : World :=
  if s.recv < W.n then
    let H := heapUpdate s.writes s.new (s.rebound W).1 (s.rebound W).2
    if s.inplace then ⟨H, fun k => if k = s.recv then (s.rebound W).2 else W.objs k, W.n⟩
    else ⟨H, fun k => if k = W.n then (s.rebound W).2 else W.objs k, W.n + 1⟩
  else W

def World.run (W : World) : List Step → World
  | [] => W
  | s :: ss => (W.exec s).run ss

/-- what object `i` holds in buffer `b` -/
def World.val (W : World) (i : Nat) (b : Buf) : List Rat := W.heap.cell (W.objs i b)

/-- the step a class's row prescribes for `from_vector` (`inplace = false`) or `from_vector_inplace`; a buffer
the class does not hold is an empty placeholder, one per object -/
def stepOfRow (r : Row) (recv : Nat) (inplace : Bool) (new : Buf → List Rat) : Step :=
  if isRebuilder r.fromVector && !inplace then
    ⟨recv, false, fun _ => true, bufsOf r.cls, [], new⟩     -- constructor rebuild: every attribute is a new array
  else
    ⟨recv, inplace, fun b => copyFresh r.copy b || !(bufsOf r.cls).contains b, rowRebinds r,
      (writesInto r.fvi).getD allBufs, new⟩

end MenpoModel.C05
