/-
Model of `menpo.base.LazyList` (C19).  Core Lean only.

A lazy list is a Python list of callables.  Elements are thunk *terms*
(`base b i` = `partial(g_b, i)`, `const v` = `partial(identity, v)`,
`app f t` = `partial(delayed, f, t)`), so "nothing is evaluated" is visible
in the type: building a list never consults the environment.
-/
import MenpoModel.Core.PyData
import MenpoModel.Core.C19Glob

namespace MenpoModel.LazyList
open MenpoModel.PyData

inductive Err | index | value | type
deriving Repr, DecidableEq

inductive LThunk where
  | base (b i : Nat)
  | const (v : Int)
  | app (f : Nat) (t : LThunk)
deriving Repr, DecidableEq

/-- what the callables compute (abstract in the theorems, concrete in the driver) -/
structure Env where
  baseVal : Nat → Nat → Int
  fn : Nat → Int → Int

inductive Ev where
  | acc (b i : Nat)          -- base callable `g_b(i)` invoked
  | call (f : Nat) (arg : Int) -- mapped function `f` invoked on `arg`
deriving Repr, DecidableEq

def LThunk.eval (e : Env) : LThunk → Int
  | .base b i => e.baseVal b i
  | .const v => v
  | .app f t => e.fn f (t.eval e)

/-- evaluation together with the log of every callable invoked, in order -/
def LThunk.evalLog (e : Env) : LThunk → Int × List Ev
  | .base b i => (e.baseVal b i, [.acc b i])
  | .const v => (v, [])
  | .app f t =>
    let (v, l) := t.evalLog e
    (e.fn f v, l ++ [.call f v])

/-- the dependency chain of a thunk: the base access (if any) then the mapped functions, innermost first -/
def LThunk.baseOf : LThunk → Option (Nat × Nat)
  | .base b i => some (b, i)
  | .const _ => none
  | .app _ t => t.baseOf
def LThunk.fns : LThunk → List Nat
  | .app f t => t.fns ++ [f]
  | _ => []

/-- what `__getitem__` accepts besides a single int -/
inductive Sel where
  | ints (l : List Int)                       -- any iterable of ints (list, tuple, ndarray)
  | slice (start stop step : Option Int)
deriving Repr

def optAll {α} : List (Option α) → Option (List α)
  | [] => some []
  | none :: _ => none
  | some x :: t => (optAll t).map (x :: ·)

def Sel.resolve (s : Sel) (len : Nat) : Except Err (List Nat) :=
  match s with
  | .ints l => match optAll (l.map (normIndex len)) with
    | some r => .ok r
    | none => .error .index
  | .slice a b c => match sliceIndices a b c len with
    | some r => .ok r
    | none => .error .value

def gather {α} (l : List α) (idx : List Nat) : List α := idx.filterMap (l[·]?)

/-- `LazyList.repeat(n)` builds `[callables] * n`: empty for every `n ≤ 0` -/
def repCount (n : Int) : Nat := n.toNat

/-- the callable `_import_glob_lazy_list` stores for one path: `partial(_import, path, extension_map,
landmark_resolver=r, …)` — the importer chosen by the extension, then (images) the landmark resolver -/
def importThunk (known : List Nat) (r : Option Nat) (f : FileEnt) : LThunk :=
  let t := LThunk.base ((importKind known f).getD 0) f.id
  match r with
  | none => t
  | some g => .app g t

/-- `partial(f, x)` of `init_from_iterable` (`f = None`: the unlogged identity) -/
def iterThunk (f : Option Nat) (x : Int) : LThunk :=
  match f with
  | none => .const x
  | some g => .app g (.const x)

def optE {α} (x : Option α) : Except Err α :=
  match x with
  | some a => .ok a
  | none => .error .value

inductive Prog where
  | base (b n : Nat)                 -- init_from_index_callable(g_b, n)
  | map (f : Nat) (p : Prog)         -- p.map(f)
  | mapEach (fs : List Nat) (p : Prog) -- p.map([f₀, f₁, …])
  | select (s : Sel) (p : Prog)      -- p[s]
  | rep (n : Nat) (p : Prog)         -- p.repeat(n)
  | add (p q : Prog)                 -- p + q
  | addPlain (p : Prog) (vs : List Int) -- p + [v₀, …]
  | copy (p : Prog)                  -- p.copy()
  | iter (f : Option Nat) (vs : List Int) -- LazyList.init_from_iterable(vs, f)
  | glob (r : Option Nat) (known : List Nat) (files : List FileEnt) (max : Option Int)
      -- _import_glob_lazy_list(sorted listing, extension_map, max_assets, landmark_resolver)
deriving Repr

def bindE {α β} (x : Except Err α) (f : α → Except Err β) : Except Err β :=
  match x with
  | .ok a => f a
  | .error e => .error e

def mapE {α β} (f : α → β) (x : Except Err α) : Except Err β :=
  match x with
  | .ok a => .ok (f a)
  | .error e => .error e

/-- the lazy list a program builds (no `Env`: construction cannot evaluate anything) -/
def Prog.lazy : Prog → Except Err (List LThunk)
  | .base b n => .ok ((List.range n).map (.base b))
  | .map f p => mapE (List.map (.app f)) p.lazy
  | .mapEach fs p => bindE p.lazy fun ts =>
      if fs.length = ts.length then .ok (List.zipWith .app fs ts) else .error .value
  | .select s p => bindE p.lazy fun ts => mapE (gather ts) (s.resolve ts.length)
  | .rep n p => mapE (fun ts => ts.flatMap (List.replicate n)) p.lazy
  | .add p q => bindE p.lazy fun a => mapE (a ++ ·) q.lazy
  | .addPlain p vs => mapE (· ++ vs.map .const) p.lazy
  | .copy p => p.lazy
  | .iter f vs => .ok (vs.map (iterThunk f))
  | .glob r known files max => mapE (List.map (importThunk known r)) (optE (globPaths known files max))

/-- the same program on ordinary (already evaluated) lists: the reference -/
def Prog.ref (e : Env) : Prog → Except Err (List Int)
  | .base b n => .ok ((List.range n).map (e.baseVal b))
  | .map f p => mapE (List.map (e.fn f)) (p.ref e)
  | .mapEach fs p => bindE (p.ref e) fun vs =>
      if fs.length = vs.length then .ok (List.zipWith (fun f v => e.fn f v) fs vs) else .error .value
  | .select s p => bindE (p.ref e) fun vs => mapE (gather vs) (s.resolve vs.length)
  | .rep n p => mapE (fun vs => vs.flatMap (List.replicate n)) (p.ref e)
  | .add p q => bindE (p.ref e) fun a => mapE (a ++ ·) (q.ref e)
  | .addPlain p vs => mapE (· ++ vs) (p.ref e)
  | .copy p => p.ref e
  | .iter f vs => .ok (vs.map fun x => match f with | none => x | some g => e.fn g x)
  | .glob r known files max =>
      mapE (List.map fun f =>
        let v := e.baseVal ((importKind known f).getD 0) f.id
        match r with | none => v | some g => e.fn g v) (optE (globPaths known files max))

/-- `p[i]` for a Python int: value and evaluation log -/
def Prog.getInt (e : Env) (p : Prog) (i : Int) : Except Err (Int × List Ev) :=
  bindE p.lazy fun ts =>
    match normIndex ts.length i with
    | none => .error .index
    | some j => match ts[j]? with
      | some t => .ok (t.evalLog e)
      | none => .error .index

end MenpoModel.LazyList

namespace MenpoModel.LazyList
open MenpoModel.PyData

/-! ### heap level: Python lists are mutable objects; every lazy-list operation allocates a new list

A heap is a list of cells (address = position), each holding the `_callables` list of one `LazyList`.
`hstep` executes one operation whose operands are *addresses*; the result is a fresh cell appended at the
end.  Nothing is ever written into an existing cell — that is the coded behaviour (`map`, `repeat` work on
`self.copy()`, `__getitem__` and `__add__` build a new `LazyList`), and it is what "the lists an operation
was applied to behave afterwards exactly as before" means for aliased Python objects. -/

abbrev Heap := List (List LThunk)

inductive HOp where
  | base (b n : Nat)
  | map (f : Nat) (a : Nat)
  | mapEach (fs : List Nat) (a : Nat)
  | select (s : Sel) (a : Nat)
  | rep (n : Nat) (a : Nat)
  | add (a b : Nat)
  | addPlain (a : Nat) (vs : List Int)
  | copy (a : Nat)
  | iter (f : Option Nat) (vs : List Int)
  | glob (r : Option Nat) (known : List Nat) (files : List FileEnt) (max : Option Int)
deriving Repr

/-- the value an operation computes from its operand lists (shared with `Prog.lazy`) -/
def opValue (h : Heap) : HOp → Except Err (List LThunk)
  | .base b n => .ok ((List.range n).map (.base b))
  | .map f a => match h[a]? with
    | some ts => .ok (ts.map (.app f))
    | none => .error .index
  | .mapEach fs a => match h[a]? with
    | some ts => if fs.length = ts.length then .ok (List.zipWith .app fs ts) else .error .value
    | none => .error .index
  | .select s a => match h[a]? with
    | some ts => mapE (gather ts) (s.resolve ts.length)
    | none => .error .index
  | .rep n a => match h[a]? with
    | some ts => .ok (ts.flatMap (List.replicate n))
    | none => .error .index
  | .add a b => match h[a]?, h[b]? with
    | some x, some y => .ok (x ++ y)
    | _, _ => .error .index
  | .addPlain a vs => match h[a]? with
    | some ts => .ok (ts ++ vs.map .const)
    | none => .error .index
  | .copy a => match h[a]? with
    | some ts => .ok ts
    | none => .error .index
  | .iter f vs => .ok (vs.map (iterThunk f))
  | .glob r known files max => mapE (List.map (importThunk known r)) (optE (globPaths known files max))

/-- one operation: on success the result is stored in a new cell; a refused operation changes nothing -/
def hstep (h : Heap) (op : HOp) : Heap :=
  match opValue h op with
  | .ok ts => h ++ [ts]
  | .error _ => h

def hrun (h : Heap) (ops : List HOp) : Heap := ops.foldl hstep h

end MenpoModel.LazyList
