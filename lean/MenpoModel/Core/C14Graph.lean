/-
C14 — executable model of `menpo/shape/graph.py` (graphs, trees and their queries).
Core Lean only (no Mathlib).  Every recursive function is structural on a `Nat` fuel so that
finite clauses can be decided by kernel evaluation.

A graph is the stored (weighted) adjacency matrix: `w i j` is the entry of row `i`, column `j`
(`0` = no stored entry), vertices are `0 … n-1`.  Queries are transcribed from the code branch
for branch; `csgraph` results (predecessor arrays) are *parameters* of the functions that
consume them (`pathFromPred`, `treeCompareCoded`), see the header of `Props/C14.lean`.
-/

namespace MenpoModel.C14

structure Graph where
  n : Nat
  w : Nat → Nat → Nat

namespace Graph

/-- from a row-major matrix (driver input / `Graph(adjacency_matrix)`) -/
def ofRows (rows : List (List Nat)) : Graph :=
  ⟨rows.length, fun i j => (rows.getD i []).getD j 0⟩

def rows (g : Graph) : List (List Nat) :=
  (List.range g.n).map fun i => (List.range g.n).map fun j => g.w i j

/-- `_check_vertex` : ValueError unless `0 ≤ v ≤ n-1` -/
def checkVertex (g : Graph) (v : Nat) : Bool := decide (v < g.n)

/-- `is_edge` : `adjacency_matrix[v1, v2] != 0` -/
def isEdge (g : Graph) (u v : Nat) : Bool := g.w u v != 0

/-- `adjacency_matrix[u, :].nonzero()[1]` — `neighbours` (undirected) and `children` (directed) -/
def row (g : Graph) (u : Nat) : List Nat := (List.range g.n).filter fun v => g.w u v != 0

/-- `adjacency_matrix[:, v].nonzero()[0]` — `parents` -/
def col (g : Graph) (v : Nat) : List Nat := (List.range g.n).filter fun u => g.w u v != 0

def neighbours := @row
def children := @row
def parents := @col

/-- `DirectedGraph.edges` : `vstack(adjacency_matrix.nonzero()).T` (row-major) -/
def edgesD (g : Graph) : List (Nat × Nat) :=
  (List.range g.n).flatMap fun i => (g.row i).map fun j => (i, j)

/-- `UndirectedGraph.edges` : `vstack(triu(adjacency_matrix).nonzero()).T` -/
def edgesU (g : Graph) : List (Nat × Nat) :=
  (List.range g.n).flatMap fun i => ((g.row i).filter fun j => decide (i ≤ j)).map fun j => (i, j)

def edges (g : Graph) (directed : Bool) : List (Nat × Nat) := if directed then g.edgesD else g.edgesU

/-- `_isolated_vertices` : vertices that are in no non-zero row and no non-zero column -/
def isolated (g : Graph) : List Nat :=
  (List.range g.n).filter fun v => (g.row v).isEmpty && (g.col v).isEmpty

/-- `get_adjacency_list` -/
def adjacencyList (g : Graph) : List (List Nat) := (List.range g.n).map g.row

def Symmetric (g : Graph) : Prop := ∀ i j, i < g.n → j < g.n → g.w i j = g.w j i

/-- `_is_symmetric` as a computation -/
def symmetricB (g : Graph) : Bool :=
  (List.range g.n).all fun i => (List.range g.n).all fun j => g.w i j == g.w j i

end Graph

/-! ### edge list → adjacency -/

/-- `_convert_edges_to_adjacency_matrix` : `csr_matrix(([1]*m, (e[:,0], e[:,1])))` sums duplicates -/
def fromEdges (n : Nat) (es : List (Nat × Nat)) : Graph := ⟨n, fun i j => es.count (i, j)⟩

/-- `_convert_edges_to_symmetric_adjacency_matrix` : both orientations are entered, duplicates
are summed by the sparse constructor, then every stored non-zero is set to 1 -/
def fromEdgesSym (n : Nat) (es : List (Nat × Nat)) : Graph :=
  ⟨n, fun i j => if es.count (i, j) + es.count (j, i) != 0 then 1 else 0⟩

/-- scipy refuses indices outside the shape (ValueError) -/
def edgesInRange (n : Nat) (es : List (Nat × Nat)) : Bool := es.all fun e => decide (e.1 < n) && decide (e.2 < n)

/-! ### masking (`_mask_adjacency_matrix_and_points`) -/

def maskFilter {α} : List α → List Bool → List α
  | x :: xs, b :: bs => if b then x :: maskFilter xs bs else maskFilter xs bs
  | _, _ => []

/-- number of kept entries strictly before position `v` — the new index of a kept `v` -/
def rank : List Bool → Nat → Nat
  | _, 0 => 0
  | [], _ => 0
  | b :: bs, v+1 => (if b then 1 else 0) + rank bs v

/-- `indices_to_keep = np.nonzero(mask)[0]` -/
def keepIdx (n : Nat) (mask : List Bool) : List Nat := maskFilter (List.range n) mask

/-- `adjacency_matrix[keep, :][:, keep]` -/
def Graph.select (g : Graph) (keep : List Nat) : Graph :=
  ⟨keep.length, fun i j => g.w (keep.getD i 0) (keep.getD j 0)⟩

def Graph.mask (g : Graph) (mask : List Bool) : Graph := g.select (keepIdx g.n mask)

inductive Err where
  | maskLength | empty | rootRemoved | isolated | notTree | badRoot | bfsDiffers
deriving Repr, DecidableEq

/-- `Point(Un)directedGraph.from_mask` : graph part and the kept original indices (the points that
follow).  The all-true shortcut returns the same graph; otherwise the constructor runs with checks,
which refuses an empty graph. -/
def Graph.fromMask (g : Graph) (mask : List Bool) : Except Err (Graph × List Nat) :=
  if mask.length ≠ g.n then .error .maskLength
  else if mask.all id then .ok (g, List.range g.n)
  else
    let keep := keepIdx g.n mask
    if keep.isEmpty then .error .empty else .ok (g.select keep, keep)

/-! ### simple paths (`find_all_paths`, `n_paths`) -/

/-- `find_all_paths(start, end, path)` : fuel `n + 2` always suffices (the path grows by a new
vertex at every level) -/
def Graph.allPathsF (g : Graph) : Nat → Nat → Nat → List Nat → List (List Nat)
  | 0, _, _, _ => []
  | f+1, s, t, path =>
    let path := path ++ [s]
    if s = t then [path]
    else if ¬ s < g.n then []
    else (g.row s).flatMap fun v => if path.contains v then [] else g.allPathsF f v t path

def Graph.allPaths (g : Graph) (s t : Nat) : List (List Nat) := g.allPathsF (g.n + 2) s t []
def Graph.nPaths (g : Graph) (s t : Nat) : Nat := (g.allPaths s t).length

/-! ### the recursive DFS cycle detector (`_has_cycles`), state passing -/

structure St where
  entered : List Nat
  exited : List Nat
  treeEdges : List (Nat × Nat)      -- dict child → parent (cons + first hit = last write wins)
  backEdges : List (Nat × Nat)      -- dict y → set of nodes, as pairs

def lookup (d : List (Nat × Nat)) (k : Nat) : Option Nat := (d.find? (·.1 == k)).map (·.2)

def dfs (adjL : List (List Nat)) (directed : Bool) : Nat → Nat → St → St
  | 0, _, st => st
  | fuel+1, node, st =>
    if st.entered.contains node then st else
      let st := { st with entered := node :: st.entered }
      let st := (adjL.getD node []).foldl (fun st y =>
        let st :=
          if !st.entered.contains y then { st with treeEdges := (y, node) :: st.treeEdges }
          else if (!directed && lookup st.treeEdges node != some y) || (directed && !st.exited.contains y)
            then { st with backEdges := (y, node) :: st.backEdges }
          else st
        dfs adjL directed fuel y st) st
      { st with exited := node :: st.exited }

/-- `_has_cycles(adjacency_list, directed)` -/
def hasCyclesL (adjL : List (List Nat)) (directed : Bool) : Bool :=
  (List.range adjL.length).any fun x =>
    !(dfs adjL directed (2 * adjL.length + 2) x ⟨[], [], [], []⟩).backEdges.isEmpty

def Graph.hasCycles (g : Graph) (directed : Bool) : Bool := hasCyclesL g.adjacencyList directed

/-- `is_tree` as it was coded before `fix: 88f3f30` : `not has_cycles() and n_edges == n_vertices - 1`
(kept for the refutation-by-witness) -/
def Graph.isTreeCoded (g : Graph) (directed : Bool) : Bool :=
  -- (the two conjuncts are pure; the cheap one is written first so that kernel evaluation short-cuts)
  (g.edges directed).length + 1 == g.n && !g.hasCycles directed

/-! ### reference algorithms, written for obviousness -/

/-- neighbours in the underlying undirected graph -/
def Graph.und (g : Graph) (v : Nat) : List Nat :=
  (List.range g.n).filter fun u => g.w v u != 0 || g.w u v != 0

def closeStep (nb : Nat → List Nat) (s : List Nat) : List Nat := (s ++ s.flatMap nb).eraseDups

/-- vertices reachable from `v` following `nb` (closure iterated `n` times) -/
def reachFrom (n : Nat) (nb : Nat → List Nat) (v : Nat) : List Nat :=
  (List.range n).foldl (fun s _ => closeStep nb s) [v]

/-- the weak component of `v` -/
def Graph.component (g : Graph) (v : Nat) : List Nat := reachFrom g.n g.und v

def compsGo (n : Nat) (comp : Nat → List Nat) : Nat → List Nat → Nat → Nat
  | 0, _, cnt => cnt
  | _, [], cnt => cnt
  | f+1, v :: rest, cnt =>
    let c := comp v
    compsGo n comp f (rest.filter fun x => !c.contains x) (cnt + 1)

/-- number of weakly connected components -/
def Graph.nComponents (g : Graph) : Nat := compsGo g.n g.component g.n (List.range g.n) 0

/-- `is_tree` (since `fix: 88f3f30`) : `not has_cycles() and n_edges == n_vertices - 1 and
connected_components(adjacency, directed=False) == 1` -/
def Graph.isTree (g : Graph) (directed : Bool) : Bool :=
  g.isTreeCoded directed && g.nComponents == 1

/-- number of undirected edges counted once (pairs `i ≤ j` joined in either direction) -/
def Graph.nUndEdges (g : Graph) : Nat :=
  ((List.range g.n).flatMap fun i => (g.und i).filter fun j => decide (i ≤ j)).length

/-- reference, undirected: a graph has a cycle iff `m + c > n` (cyclomatic number positive) -/
def Graph.refCycleU (g : Graph) : Bool := decide (g.nUndEdges + g.nComponents > g.n)

/-- reference, directed: some vertex lies on a closed walk of length ≥ 1 -/
def Graph.refCycleD (g : Graph) : Bool :=
  (List.range g.n).any fun v => (g.row v).any fun c => (reachFrom g.n g.row c).contains v

def Graph.refCycle (g : Graph) (directed : Bool) : Bool := if directed then g.refCycleD else g.refCycleU

/-- reference, undirected: a tree is a connected graph without cycles -/
def Graph.refTreeU (g : Graph) : Bool := !g.refCycleU && g.nComponents == 1

/-- reference, directed, weakest textbook reading: the underlying undirected graph is a tree and
there are no antiparallel pairs / loops (polytree) -/
def Graph.refPolytree (g : Graph) : Bool :=
  g.nComponents == 1 && g.nUndEdges + 1 == g.n && g.edgesD.length + 1 == g.n

/-- reference, directed, strongest textbook reading: an arborescence rooted at `r`
(root has no parent, every other vertex exactly one, every vertex reachable from `r`) -/
def Graph.refArborescence (g : Graph) (r : Nat) : Bool :=
  decide (r < g.n) && (g.col r).isEmpty &&
  ((List.range g.n).all fun v => v == r || (g.col v).length == 1) &&
  ((List.range g.n).all fun v => (reachFrom g.n g.row r).contains v)

/-! ### rooted trees (`Tree`) -/

/-- `_get_predecessors_list` : iterate the non-zeros row-major, `pred[child] = parent`, last write wins -/
def Graph.predList (g : Graph) : List (Option Nat) := (List.range g.n).map fun v => (g.col v).getLast?

/-- `parent(v)` = `predecessors_list[v]` -/
def Graph.parent (g : Graph) (v : Nat) : Option Nat := (g.col v).getLast?

/-- `depth_of_vertex` : follow predecessors until the root; `none` when the walk leaves the tree
(`predecessors_list[None]` raises) or does not end within the fuel -/
def Graph.depthF (g : Graph) (root : Nat) : Nat → Nat → Option Nat
  | 0, _ => none
  | f+1, v => if v = root then some 0 else
      match g.parent v with
      | none => none
      | some p => (g.depthF root f p).map (· + 1)

def Graph.depth (g : Graph) (root v : Nat) : Option Nat := g.depthF root (g.n + 1) v

/-- `is_leaf` -/
def Graph.isLeaf (g : Graph) (v : Nat) : Bool := (g.children v).isEmpty
/-- `leaves` -/
def Graph.leaves (g : Graph) : List Nat := (List.range g.n).filter g.isLeaf

/-- breadth-first tree from `root` following children (`csgraph.breadth_first_tree`), as an edge list -/
def bfsLoop (g : Graph) : Nat → List Nat → List Nat → List (Nat × Nat) → List (Nat × Nat)
  | 0, _, _, acc => acc
  | _+1, [], _, acc => acc
  | f+1, u :: q, vis, acc =>
    let new := (g.row u).filter fun v => !vis.contains v
    bfsLoop g f (q ++ new) (vis ++ new) (acc ++ new.map fun v => (u, v))

def Graph.bfsTree (g : Graph) (root : Nat) : List (Nat × Nat) := bfsLoop g (g.n + 1) [root] [root] []

def sameEdgeSet (a b : List (Nat × Nat)) : Bool := a.all b.contains && b.all a.contains

/-- The comparison the constructor performed before `fix: f13d9a9`, `np.allclose(bfs_tree.nonzero(), adjacency.nonzero())`,
on the two index listings *in the order the two sparse matrices list them*: arrays of shape `(2,k)`
and `(2,m)` are broadcast (`k = m`, or one of them `1`; anything else raises a ValueError, which
also rejects).  `k = 0, m = 1` broadcasts to an empty comparison, which is `True`. -/
def treeCompareCoded (bfs adj : List (Nat × Nat)) : Bool :=
  if bfs.length = adj.length then bfs == adj
  else if bfs.length = 1 then adj.all (· == bfs.headD (0, 0))
  else if adj.length = 1 then bfs.all (· == adj.headD (0, 0))
  else false

/-- `Tree.__init__` with checks as it was coded before `fix: f13d9a9`; the last test takes the listing
of the BFS tree as returned by scipy (`bfsListing`, a permutation of `g.bfsTree root` that scipy does
not specify).  Kept for the refutation-by-witness. -/
def Graph.treeCtorCoded (g : Graph) (root : Nat) (bfsListing : List (Nat × Nat)) : Except Err Unit :=
  if g.n = 0 then .error .empty
  else if !g.isolated.isEmpty then .error .isolated
  else if !g.isTree true then .error .notTree
  else if !g.checkVertex root then .error .badRoot
  else if !treeCompareCoded bfsListing g.edgesD then .error .bfsDiffers
  else .ok ()

/-- `Tree.__init__` with checks (since `fix: f13d9a9`): the last test compares the sparsity patterns
`(bfs_tree != 0) != (adjacency != 0)`, i.e. the two edge *sets* -/
def Graph.treeCtor (g : Graph) (root : Nat) : Except Err Unit :=
  if g.n = 0 then .error .empty
  else if !g.isolated.isEmpty then .error .isolated
  else if !g.isTree true then .error .notTree
  else if !g.checkVertex root then .error .badRoot
  else if !sameEdgeSet (g.bfsTree root) g.edgesD then .error .bfsDiffers
  else .ok ()

def Graph.treeCtorOk (g : Graph) (root : Nat) : Bool := match g.treeCtor root with | .ok _ => true | .error _ => false

/-- the refusal reason, `none` = accepted -/
def errOf {α} : Except Err α → Option Err
  | .ok _ => none
  | .error e => some e

/-- `PointTree.from_mask` : mask, then keep the weak component of the root until one component is
left, re-indexing the root each time; finally the constructor with checks.  Returns the graph, the
new root and the kept original indices. -/
def pruneLoop : Nat → Graph → Nat → List Nat → Graph × Nat × List Nat
  | 0, g, root, keep => (g, root, keep)
  | f+1, g, root, keep =>
    if g.nComponents > 1 then
      let comp := g.component root
      let m := (List.range g.n).map fun v => comp.contains v
      let k := keepIdx g.n m
      pruneLoop f (g.select k) (rank m root) (k.map fun i => keep.getD i 0)
    else (g, root, keep)

def Graph.treeFromMask (g : Graph) (root : Nat) (mask : List Bool) : Except Err (Graph × Nat × List Nat) :=
  if mask.length ≠ g.n then .error .maskLength
  else if mask.all id then .ok (g, root, List.range g.n)
  else if !mask.getD root false then .error .rootRemoved
  else
    let keep := keepIdx g.n mask
    let (g', r', keep') := pruneLoop (g.n + 1) (g.select keep) (rank mask root) keep
    match g'.treeCtor r' with
    | .error e => .error e
    | .ok _ => .ok (g', r', keep')

/-! ### distances, routes, costs -/

def omin : Option Nat → Option Nat → Option Nat
  | none, b => b
  | a, none => a
  | some a, some b => some (min a b)

/-- the candidate distance of `v` through its in-neighbour `u` -/
def cand (g : Graph) (d : List (Option Nat)) (v u : Nat) : Option Nat :=
  match d.getD u none with
  | none => none
  | some du => if g.w u v != 0 then some (du + g.w u v) else none

def relaxAt (g : Graph) (d : List (Option Nat)) (v : Nat) : Option Nat :=
  (List.range g.n).foldl (fun acc u => omin acc (cand g d v u)) (d.getD v none)

/-- one Bellman–Ford round over all edges -/
def relax (g : Graph) (d : List (Option Nat)) : List (Option Nat) := (List.range g.n).map (relaxAt g d)

def bfInit (n s : Nat) : List (Option Nat) := (List.range n).map fun v => if v = s then some 0 else none

def bfIter (g : Graph) : Nat → List (Option Nat) → List (Option Nat)
  | 0, d => d
  | k+1, d => bfIter g k (relax g d)

/-- reference single-source distances (Bellman–Ford, `n` rounds); `none` = unreachable -/
def Graph.dist (g : Graph) (s : Nat) : List (Option Nat) := bfIter g g.n (bfInit g.n s)

/-- the same with every stored edge counted as 1 (`unweighted=True`, BFS distance) -/
def Graph.unweighted (g : Graph) : Graph := ⟨g.n, fun i j => if g.w i j != 0 then 1 else 0⟩

/-- weight of a route along stored entries; `none` if some step is not an edge -/
def Graph.routeWeight (g : Graph) : List Nat → Option Nat
  | [] => some 0
  | [_] => some 0
  | a :: b :: rest => if g.w a b != 0 then (g.routeWeight (b :: rest)).map (· + g.w a b) else none

/-- every consecutive pair of the list is a stored edge -/
def Graph.isRoute (g : Graph) : List Nat → Bool
  | [] => true
  | [_] => true
  | a :: b :: rest => g.isEdge a b && g.isRoute (b :: rest)

/-- the loop shared by `find_path` and `find_shortest_path`:
`path = [end]; while i != start: i = pred[path[-1]]; path.append(i)`; builds the reversed path.
`none` = the loop does not terminate within the fuel or indexes outside the array. -/
def walkBack (pred : List (Option Nat)) (start : Nat) : Nat → List Nat → Option (List Nat)
  | 0, _ => none
  | f+1, acc =>
    match acc with
    | [] => none
    | last :: _ =>
      match pred.getD last none with
      | none => none
      | some i => if i = start then some (i :: acc) else walkBack pred start f (i :: acc)

/-- `find_path` given the predecessor array of `csgraph.breadth_first_order / depth_first_order`
(`none` = -9999) -/
def pathFromPred (pred : List (Option Nat)) (start end_ : Nat) : Option (List Nat) :=
  match pred.getD end_ none with
  | none => some []
  | some _ => walkBack pred start (pred.length + 1) [end_]

/-- `distance += distances[start, v]` (`none` = an infinite / missing entry) -/
def costStep (d : List (Option Nat)) (acc : Option Nat) (v : Nat) : Option Nat :=
  match acc, d.getD v none with
  | some a, some x => some (a + x)
  | _, _ => none

/-- the cost `find_shortest_path` accumulates: `distances[start, v]` for every vertex appended
after `end`, i.e. for all of the final path but its last vertex -/
def codedCost (d : List (Option Nat)) (path : List Nat) : Option Nat :=
  path.dropLast.foldl (costStep d) (some 0)

/-- `find_shortest_path` given scipy's distance and predecessor rows of `start`:
`(path, cost)`, cost `none` = `inf` -/
def shortestPathCoded (d pred : List (Option Nat)) (start end_ : Nat) : Option (List Nat × Option Nat) :=
  match pred.getD end_ none with
  | none => some ([], none)
  | some _ => (walkBack pred start (pred.length + 1) [end_]).map fun p => (p, codedCost d p)

/-! ### minimum spanning tree weight (Kruskal, reference) -/

def insertBy {α} (le : α → α → Bool) (x : α) : List α → List α
  | [] => [x]
  | y :: ys => if le x y then x :: y :: ys else y :: insertBy le x ys

def sortBy {α} (le : α → α → Bool) (l : List α) : List α := l.foldr (insertBy le) []

/-- undirected weighted edges `(w, i, j)`, `i < j`, weight = the stored entry (min of the two
orientations when both are stored, as scipy does for an undirected reading) -/
def Graph.wEdges (g : Graph) : List (Nat × Nat × Nat) :=
  (List.range g.n).flatMap fun i => ((List.range g.n).filter fun j => decide (i < j) && (g.w i j != 0 || g.w j i != 0)).map fun j =>
    (if g.w i j = 0 then g.w j i else if g.w j i = 0 then g.w i j else min (g.w i j) (g.w j i), i, j)

/-- Kruskal with labels: returns (total weight, number of edges taken) -/
def Graph.kruskal (g : Graph) : Nat × Nat :=
  let es := sortBy (fun (a b : Nat × Nat × Nat) => decide (a.1 ≤ b.1)) g.wEdges
  let r := es.foldl (fun (st : List Nat × Nat × Nat) e =>
    let (lab, tot, cnt) := st
    let la := lab.getD e.2.1 0
    let lb := lab.getD e.2.2 0
    if la = lb then st else (lab.map fun l => if l = lb then la else l, tot + e.1, cnt + 1)) (List.range g.n, 0, 0)
  (r.2.1, r.2.2)

end MenpoModel.C14
