/-
C16 — export then import returns the same data; files are never clobbered unasked.
Executable model, core Lean only (no Mathlib).  Transcribed from

  menpo/io/output/landmark.py   ljson_exporter, pts_exporter
  menpo/io/input/landmark.py    ljson_importer, _parse_ljson_v3, _ljson_parse_null_values, pts_importer
  menpo/shape/{pointcloud,graph,labelled}.py   tojson; _convert_edges_to_symmetric_adjacency_matrix; .edges
  menpo/image/base.py           normalize_pixels_range, denormalize_pixels_range, Image.as_PILImage
  menpo/io/input/image.py       pillow_importer (modes L / RGB)
  menpo/io/utils.py             _norm_path, _possible_extensions_from_filepath
  menpo/io/output/base.py       _validate_filepath, _parse_and_validate_extension, _export, export_pickle

Library code is a contract parameter, not modelled: the `json` module (a value tree written is the value
tree read; float `repr` round-trips binary64 exactly), `pickle`, the PIL codecs (lossless formats return
the array they were given), `%.3f` (correctly rounded decimal, ties to even on the exact binary value).
Strings that the theorems quantify over are `List Char` (structural recursion, kernel friendly); the
driver converts with `String.toList`.
-/

namespace MenpoModel.C16

/-! ## 1. LJSON: `tojson` + `ljson_exporter` → JSON value tree → `ljson_importer` -/

/-- keys of the fixed LJSON schema; group names are `user` keys -/
inductive Key where
  | version | groups | labels | landmarks | points | connectivity | label | mask
  | user (s : String)
  deriving DecidableEq, Repr

inductive Json where
  | null
  | num (q : Rat)
  | str (s : String)
  | arr (xs : List Json)
  | obj (kvs : List (Key × Json))

/-- what `tojson` of one landmark group sees.
`points`: the `(n, d)` array, `none` = NaN.  `conn`: `self.edges.tolist()`, `none` for a plain
`PointCloud` (its `tojson` writes no `connectivity` key).  `labels`: the ordered `label → mask` dictionary
(empty for unlabelled shapes). -/
structure Shape where
  points : List (List (Option Rat))
  conn : Option (List (Nat × Nat))
  labels : List (String × List Bool)
  deriving Repr

/-- `mask.nonzero()[0].tolist()` -/
def indicesOf (m : List Bool) : List Nat :=
  (List.range m.length).filter fun i => m.getD i false

/-- `zip(f[::2], f[1::2])` / `zip(f[::3], f[1::3], f[2::3])` of the exporter (zip truncates a ragged tail) -/
def regroup2 {α} : List α → List (List α)
  | a :: b :: t => [a, b] :: regroup2 t
  | _ => []

def regroup3 {α} : List α → List (List α)
  | a :: b :: c :: t => [a, b, c] :: regroup3 t
  | _ => []

/-- the exporter's point list: `ndim = len(points[0])` (0 when there is no point); NaN → `None`;
re-tupled for `ndim` 2 and 3, **dropped** (`[]`) for every other `ndim` -/
def exportPoints (pts : List (List (Option Rat))) : List (List (Option Rat)) :=
  let ndim := match pts with
    | [] => 0
    | r :: _ => r.length
  if ndim = 2 then regroup2 pts.flatten
  else if ndim = 3 then regroup3 pts.flatten
  else []

def jOpt : Option Rat → Json
  | none => .null
  | some q => .num q

def jNat (n : Nat) : Json := .num (n : Rat)

def jPair (p : Nat × Nat) : Json := .arr [jNat p.1, jNat p.2]

def encodeLabel (l : String × List Bool) : Json :=
  .obj [(.label, .str l.1), (.mask, .arr ((indicesOf l.2).map jNat))]

/-- `pointcloud.tojson()` followed by the exporter's rewrite of `["landmarks"]["points"]`
(keys in `sort_keys=True` order) -/
def encodeGroup (s : Shape) : Json :=
  let pts : Json := .arr ((exportPoints s.points).map fun r => .arr (r.map jOpt))
  let lm : List (Key × Json) := match s.conn with
    | none => [(.points, pts)]
    | some c => [(.connectivity, .arr (c.map jPair)), (.points, pts)]
  .obj [(.labels, .arr (s.labels.map encodeLabel)), (.landmarks, .obj lm)]

/-- `sort_keys=True` on the `groups` dictionary: Python orders `str` keys by code point, as `String.le` -/
def sortGroups {α} (gs : List (String × α)) : List (String × α) :=
  gs.mergeSort fun a b => decide (a.1 ≤ b.1)

def encodeDoc (gs : List (String × Shape)) : Json :=
  .obj [(.groups, .obj ((sortGroups gs).map fun g => (.user g.1, encodeGroup g.2))), (.version, jNat 3)]

/-! ### importer -/

inductive Err where
  | unknownVersion     -- ValueError: version not 1, 2 or 3
  | legacyVersion      -- versions 1 and 2 have parsers of their own, not modelled (never written by the exporter)
  | emptyPoints        -- IndexError: `len(points_list[0])` on an empty point list
  | malformed          -- KeyError / TypeError / ValueError / IndexError on a tree the exporter never writes
  deriving DecidableEq, Repr

inductive Cls where
  | pug    -- PointUndirectedGraph
  | lpug   -- LabelledPointUndirectedGraph
  deriving DecidableEq, Repr

structure Imported where
  cls : Cls
  points : List (List (Option Rat))
  edges : List (Nat × Nat)            -- `.edges`: upper-triangular non-zero entries, row major
  labels : List (String × List Bool)
  deriving DecidableEq, Repr

def Json.get (k : Key) : Json → Option Json
  | .obj kvs => kvs.lookup k
  | _ => none

def decOpt : Json → Except Err (Option Rat)
  | .null => .ok none
  | .num q => .ok (some q)
  | _ => .error .malformed

def decNat : Json → Except Err Nat
  | .num q => if q.den = 1 ∧ 0 ≤ q.num then .ok q.num.toNat else .error .malformed
  | _ => .error .malformed

def decArr : Json → Except Err (List Json)
  | .arr xs => .ok xs
  | _ => .error .malformed

def decStr : Json → Except Err String
  | .str s => .ok s
  | _ => .error .malformed

def mapE {α β} (f : α → Except Err β) : List α → Except Err (List β)
  | [] => .ok []
  | a :: t => match f a with
    | .error e => .error e
    | .ok b => match mapE f t with
      | .error e => .error e
      | .ok bs => .ok (b :: bs)

/-- `reshape([-1, d])` of a flat list (`fuel` ≥ number of rows) -/
def chunksOf {α} (d : Nat) : Nat → List α → List (List α)
  | 0, _ => []
  | _, [] => []
  | fuel+1, xs => xs.take d :: chunksOf d fuel (xs.drop d)

def decRow (r : Json) : Except Err (List (Option Rat)) :=
  match decArr r with
  | .error e => .error e
  | .ok xs => mapE decOpt xs

/-- `_ljson_parse_null_values`: flatten, `None` → NaN, `reshape([-1, len(points_list[0])])` -/
def decPoints (j : Json) : Except Err (List (List (Option Rat))) :=
  match decArr j with
  | .error e => .error e
  | .ok rows => match mapE decRow rows with
    | .error e => .error e
    | .ok [] => .error .emptyPoints
    | .ok (r0 :: rs) =>
      let flat := (r0 :: rs).flatten
      let d := r0.length
      if d = 0 ∨ flat.length % d ≠ 0 then .error .malformed
      else .ok (chunksOf d (flat.length + 1) flat)

def decPair (j : Json) : Except Err (Nat × Nat) :=
  match decArr j with
  | .ok [a, b] => match decNat a, decNat b with
    | .ok x, .ok y => .ok (x, y)
    | _, _ => .error .malformed
  | _ => .error .malformed

/-- entry `(i, j)` of the symmetric adjacency matrix built from an edge list -/
def adjSym (c : List (Nat × Nat)) (i j : Nat) : Bool :=
  c.any fun e => (e.1 == i && e.2 == j) || (e.1 == j && e.2 == i)

/-- `_convert_edges_to_symmetric_adjacency_matrix(edges, n)` followed by `.edges`
(`triu(adjacency).nonzero()`, row major) -/
def symEdges (n : Nat) (c : List (Nat × Nat)) : List (Nat × Nat) :=
  (List.range n).flatMap fun i => ((List.range n).filter fun j => i ≤ j && adjSym c i j).map fun j => (i, j)

def maskOf (n : Nat) (idx : List Nat) : List Bool :=
  (List.range n).map fun i => idx.contains i

def decLabel (n : Nat) (j : Json) : Except Err (String × List Bool) :=
  match j.get .label, j.get .mask with
  | some l, some m => match decStr l, decArr m with
    | .ok name, .ok xs => match mapE decNat xs with
      | .ok idx => if idx.all (· < n) then .ok (name, maskOf n idx) else .error .malformed
      | .error e => .error e
    | _, _ => .error .malformed
  | _, _ => .error .malformed

/-- one group of `_parse_ljson_v3` -/
def decodeGroup (j : Json) : Except Err Imported :=
  match j.get .landmarks, j.get .labels with
  | some lm, some labs => match lm.get .points with
    | none => .error .malformed
    | some pj => match decPoints pj with
      | .error e => .error e
      | .ok pts =>
        let n := pts.length
        let connE : Except Err (List (Nat × Nat)) := match lm.get .connectivity with
          | none => .ok []                       -- `.get("connectivity")` is None: no edges
          | some cj => match decArr cj with
            | .error e => .error e
            | .ok cs => mapE decPair cs
        match connE with
        | .error e => .error e
        | .ok c =>
          if !(c.all fun e => e.1 < n && e.2 < n) then .error .malformed else
          match decArr labs with
          | .error e => .error e
          | .ok ls => match mapE (decLabel n) ls with
            | .error e => .error e
            | .ok labels =>
              .ok { cls := if labels.isEmpty then .pug else .lpug, points := pts,
                    edges := symEdges n c, labels := labels }
  | _, _ => .error .malformed

def decodeGroups : List (Key × Json) → Except Err (List (String × Imported))
  | [] => .ok []
  | (.user name, g) :: t => match decodeGroup g with
    | .error e => .error e
    | .ok i => match decodeGroups t with
      | .error e => .error e
      | .ok r => .ok ((name, i) :: r)
  | _ :: _ => .error .malformed

/-- `ljson_importer`: version dispatch, then `_parse_ljson_v3` -/
def decodeDoc (j : Json) : Except Err (List (String × Imported)) :=
  match j.get .version with
  | some (.num v) =>
    if v = 3 then
      match j.get .groups with
      | some (.obj kvs) => decodeGroups kvs
      | _ => .error .malformed
    else if v = 1 ∨ v = 2 then .error .legacyVersion
    else .error .unknownVersion
  | _ => .error .unknownVersion

/-- what the property requires of the re-imported group -/
def expectedImport (s : Shape) : Imported :=
  { cls := if s.labels.isEmpty then .pug else .lpug, points := s.points,
    edges := symEdges s.points.length (s.conn.getD []), labels := s.labels }

/-- a landmark group the property quantifies over: `n ≥ 1` points of dimension 2 or 3, edges and label
masks inside the point set -/
def Shape.WF (s : Shape) : Prop :=
  s.points ≠ [] ∧ (∃ d, (d = 2 ∨ d = 3) ∧ ∀ r ∈ s.points, r.length = d) ∧
  (∀ e ∈ s.conn.getD [], e.1 < s.points.length ∧ e.2 < s.points.length) ∧
  (∀ l ∈ s.labels, l.2.length = s.points.length)

/-! ## 2. PTS: `pts[:, [1, 0]] + 1` written with `%.3f`; read back as `[ys - 1, xs - 1]` -/

/-- round to nearest integer, ties to even -/
def roundHalfEven (q : Rat) : Int :=
  let f := q.floor
  let r := q - f
  if r < 1/2 then f else if 1/2 < r then f + 1 else if f % 2 = 0 then f else f + 1

/-- `"%.3f" % x` read back as a number (contract: correctly rounded decimal of the exact value) -/
def fmt3 (q : Rat) : Rat := (roundHalfEven (q * 1000) : Rat) / 1000

/-- the two columns `pts_exporter` writes for the point `(y, x)` (menpo order: first axis = y) -/
def ptsExport (p : Rat × Rat) : Rat × Rat := (fmt3 (p.2 + 1), fmt3 (p.1 + 1))

/-- `pts_importer(image_origin=True)`: `xpos, ypos = line.split()[:2]`, point = `(ypos - 1, xpos - 1)` -/
def ptsImport (c : Rat × Rat) : Rat × Rat := (c.2 - 1, c.1 - 1)

def ptsRoundTrip (pts : List (Rat × Rat)) : List (Rat × Rat) := pts.map fun p => ptsImport (ptsExport p)

/-! ## 3. Eight-bit range conversion on IEEE binary64 (Lean `Float`; `ofNat * / + - < toUInt64` reduce in
the kernel) -/

/-- `normalize_pixels_range` on uint8: `pixels * (1.0 / 255.0)` -/
def norm8 (k : Nat) : Float := Float.ofNat k * (1.0 / 255.0)

/-- `denormalize_pixels_range` as coded: `(pixels * 255.0).astype(np.uint8)` — the cast truncates -/
def denormTrunc (x : Float) : UInt64 := (x * 255.0).toUInt64

/-- round to nearest, ties to even (`np.round` / `np.rint`), for non-negative finite `y` -/
def rintF (y : Float) : UInt64 :=
  let n := y.toUInt64
  let d := y - Float.ofNat n.toNat
  if d < 0.5 then n else if d > 0.5 then n + 1
  else if n % 2 == 0 then n else n + 1

/-- the repaired conversion: `np.round(pixels * 255.0).astype(np.uint8)` -/
def denormRound (x : Float) : UInt64 := rintF (x * 255.0)

/-! ### float images: the quantisation in exact arithmetic (`x ∈ [0, 1]`, level = 1/255) -/

def quantTrunc (x : Rat) : Int := (x * 255).floor
def quantRound (x : Rat) : Int := roundHalfEven (x * 255)
/-- the value an importer with `normalize=True` returns for the stored level -/
def renorm (n : Int) : Rat := (n : Rat) / 255

/-! ### channel layout: `as_PILImage` (channels to the back) and `init_from_channels_at_back` -/

inductive Mode where
  | L | RGB
  deriving DecidableEq, Repr

/-- `as_PILImage`: 1 channel → mode L, 3 channels → mode RGB, anything else is a `ValueError` -/
def pilMode (nChannels nDims : Nat) : Option Mode :=
  if nDims ≠ 2 then none else if nChannels = 1 then some .L else if nChannels = 3 then some .RGB else none

/-- pixel `(r, c, ch)` of the array handed to PIL is pixel `(ch, r, c)` of the menpo image -/
def toBack {α} (img : Nat → Nat → Nat → α) : Nat → Nat → Nat → α := fun r c ch => img ch r c
/-- and back (`init_from_channels_at_back`) -/
def toFront {α} (arr : Nat → Nat → Nat → α) : Nat → Nat → Nat → α := fun ch r c => arr r c ch

/-! ## 4. Paths, extensions and the overwrite guard -/

abbrev Comp := List Char
abbrev Path := List Comp      -- components of an absolute, normalised path

/-- `s.split(sep)` -/
def splitC (sep : Char) : List Char → List (List Char)
  | [] => [[]]
  | c :: cs =>
    if c = sep then [] :: splitC sep cs
    else match splitC sep cs with
      | [] => [[c]]
      | h :: t => (c :: h) :: t

/-- one step of `os.path.normpath` on an absolute path (stack kept reversed): empty and `.` components
vanish, `..` pops (and is dropped at the root) -/
def normStep (st : List Comp) (c : Comp) : List Comp :=
  if c = [] ∨ c = ['.'] then st
  else if c = ['.', '.'] then st.tail
  else c :: st

def normAbs (cs : List Comp) : Path := (cs.foldl normStep []).reverse

/-- `_norm_path` for spellings without `~` and `$`: `abspath(normpath(p))` relative to `cwd`
(a POSIX path; a leading `//` is not generated) -/
def normPath (cwd : Path) (s : List Char) : Path :=
  match s with
  | '/' :: _ => normAbs (splitC '/' s)
  | _ => normAbs (cwd ++ splitC '/' s)

/-- `PurePath.suffixes` (Python 3.12) of a file name -/
def suffixes (name : List Char) : List (List Char) :=
  if name.getLast? = some '.' then []
  else ((splitC '.' (name.dropWhile (· = '.'))).drop 1).map fun s => '.' :: s

/-- `_possible_extensions_from_filepath`: `["".join(suffixes[i:]).lower() for i in range(len(suffixes))]` -/
def candidates : List (List Char) → List (List Char)
  | [] => []
  | s :: t => ((s :: t).flatten.map Char.toLower) :: candidates t

/-- `_parse_and_validate_extension` with no user extension: the first (= longest) candidate the map knows -/
def parseExt (known : List (List Char)) (name : List Char) : Option (List Char) :=
  (candidates (suffixes name)).find? fun c => known.contains c

inductive Kind where
  | landmark | image | pickle | video
  deriving DecidableEq, Repr

def extTable : Kind → List String
  | .landmark => [".ljson", ".pts"]
  | .image => [".bmp", ".dib", ".dcx", ".eps", ".ps", ".gif", ".im", ".jpg", ".jpe", ".jpeg", ".pcd", ".pcx",
               ".png", ".pbm", ".pgm", ".ppm", ".psd", ".tif", ".tiff", ".xbm", ".xpm"]
  | .pickle => [".pkl", ".pkl.gz"]
  | .video => [".mov", ".avi", ".mpg", ".mpeg", ".mp4", ".mkv", ".wmv", ".gif"]

def knownExts (k : Kind) : List (List Char) := (extTable k).map String.toList

/-- the file system as far as the guard can see it: which paths exist, and (abstractly) what they hold -/
abbrev FS := Path → Option Nat

def FS.write (fs : FS) (p : Path) (c : Nat) : FS := fun q => if q = p then some c else fs q

structure Op where
  kind : Kind
  spelling : List Char
  userExt : Option (List Char)    -- the `extension=` argument, already `_normalize_extension`ed
  overwrite : Bool
  content : Nat
  deriving Repr

inductive Outcome where
  | written | overwriteError | valueError
  deriving DecidableEq, Repr

/-- the decision of one export, as a function of the *normalised* path:
`_validate_filepath` first (OverwriteError), then `_parse_and_validate_extension` (ValueError), then the
write.  `export_pickle`, `_export`, `_export_paths_only` all go through these two in this order. -/
def exportAt (fs : FS) (p : Path) (kind : Kind) (userExt : Option (List Char)) (overwrite : Bool) (content : Nat) :
    Outcome × FS :=
  if (fs p).isSome ∧ overwrite = false then (.overwriteError, fs)
  else match parseExt (knownExts kind) (p.getLast?.getD []) with
    | none => (.valueError, fs)
    | some e =>
      if userExt.isSome ∧ userExt ≠ some e then (.valueError, fs)
      else (.written, fs.write p content)

def export1 (cwd : Path) (fs : FS) (op : Op) : Outcome × FS :=
  exportAt fs (normPath cwd op.spelling) op.kind op.userExt op.overwrite op.content

/-- any sequence of exports -/
def runHistory (cwd : Path) : FS → List Op → List Outcome × FS
  | fs, [] => ([], fs)
  | fs, op :: ops =>
    let r := export1 cwd fs op
    let rest := runHistory cwd r.2 ops
    (r.1 :: rest.1, rest.2)

end MenpoModel.C16
