/-
C16 — export then import returns the same data; files are never clobbered unasked.
Executable model, core Lean only (no Mathlib).  Transcribed from

  menpo/io/output/landmark.py   ljson_exporter, pts_exporter
  menpo/io/input/landmark.py    ljson_importer, _parse_ljson_v1, _parse_ljson_v2, _parse_ljson_v3,
                                _ljson_parse_null_values, pts_importer
  menpo/shape/{pointcloud,graph,labelled}.py   tojson; _convert_edges_to_symmetric_adjacency_matrix; .edges
  menpo/image/base.py           normalize_pixels_range, denormalize_pixels_range, Image.as_PILImage
  menpo/io/input/image.py       pillow_importer (modes L / RGB)
  menpo/io/utils.py             _norm_path, _possible_extensions_from_filepath
  menpo/io/output/base.py       _validate_filepath, _parse_and_validate_extension, _export, export_pickle

Library code is a contract parameter, not modelled: the `json` module (a value tree written is the value
tree read; float `repr` round-trips binary64 exactly), `pickle`, the PIL codecs (lossless formats return
the array they were given), `%.3f` (correctly rounded decimal, ties to even on the exact binary value).
Strings that the theorems quantify over are `List Char` (structural recursion, kernel friendly); the
driver converts with `String.toList`.
-/

import MenpoModel.Core.C16Pix

namespace MenpoModel.C16

/-! ## 1. LJSON: `tojson` + `ljson_exporter` → JSON value tree → `ljson_importer` -/

/-- keys of the fixed LJSON schema; group names are `user` keys -/
inductive Key where
  | version | groups | labels | landmarks | points | connectivity | label | mask
  | point                       -- LJSON v1 only: `{"point": [y, x]}`
  | user (s : String)
  deriving DecidableEq, Repr

inductive Json where
  | null
  | num (q : Rat)
  | str (s : String)
  | arr (xs : List Json)
  | obj (kvs : List (Key × Json))

/-- what `tojson` of one landmark group sees.
`points`: the `(n, d)` array, `none` = NaN.  `conn`: `self.edges.tolist()`, `none` for a plain
`PointCloud` (its `tojson` writes no `connectivity` key).  `labels`: the ordered `label → mask` dictionary
(empty for unlabelled shapes). -/
structure Shape where
  points : List (List (Option Rat))
  conn : Option (List (Nat × Nat))
  labels : List (String × List Bool)
  deriving Repr

/-- `mask.nonzero()[0].tolist()` -/
def indicesOf (m : List Bool) : List Nat :=
  (List.range m.length).filter fun i => m.getD i false

/-- `zip(f[::2], f[1::2])` / `zip(f[::3], f[1::3], f[2::3])` of the exporter (zip truncates a ragged tail) -/
def regroup2 {α} : List α → List (List α)
  | a :: b :: t => [a, b] :: regroup2 t
  | _ => []

def regroup3 {α} : List α → List (List α)
  | a :: b :: c :: t => [a, b, c] :: regroup3 t
  | _ => []

/-- the exporter's point list: `ndim = len(points[0])` (0 when there is no point); NaN → `None`;
re-tupled for `ndim` 2 and 3, **dropped** (`[]`) for every other `ndim` -/
def exportPoints (pts : List (List (Option Rat))) : List (List (Option Rat)) :=
  let ndim := match pts with
    | [] => 0
    | r :: _ => r.length
  if ndim = 2 then regroup2 pts.flatten
  else if ndim = 3 then regroup3 pts.flatten
  else []

def jOpt : Option Rat → Json
  | none => .null
  | some q => .num q

def jNat (n : Nat) : Json := .num (n : Rat)

def jPair (p : Nat × Nat) : Json := .arr [jNat p.1, jNat p.2]

def encodeLabel (l : String × List Bool) : Json :=
  .obj [(.label, .str l.1), (.mask, .arr ((indicesOf l.2).map jNat))]

/-- `pointcloud.tojson()` followed by the exporter's rewrite of `["landmarks"]["points"]`
(keys in `sort_keys=True` order) -/
def encodeGroup (s : Shape) : Json :=
  let pts : Json := .arr ((exportPoints s.points).map fun r => .arr (r.map jOpt))
  let lm : List (Key × Json) := match s.conn with
    | none => [(.points, pts)]
    | some c => [(.connectivity, .arr (c.map jPair)), (.points, pts)]
  .obj [(.labels, .arr (s.labels.map encodeLabel)), (.landmarks, .obj lm)]

/-- `sort_keys=True` on the `groups` dictionary: Python orders `str` keys by code point, as `String.le` -/
def sortGroups {α} (gs : List (String × α)) : List (String × α) :=
  gs.mergeSort fun a b => decide (a.1 ≤ b.1)

def encodeDoc (gs : List (String × Shape)) : Json :=
  .obj [(.groups, .obj ((sortGroups gs).map fun g => (.user g.1, encodeGroup g.2))), (.version, jNat 3)]

/-! ### importer -/

inductive Err where
  | unknownVersion     -- ValueError: version not 1, 2 or 3
  | emptyPoints        -- IndexError: `len(points_list[0])` on an empty point list
  | edgeOutOfRange     -- ValueError of `_convert_edges_to_symmetric_adjacency_matrix` (v1 / v2 parsers)
  | emptyLabels        -- ValueError "Empty label sets are not permitted" (v2 parser: connectivity but no label)
  | unlabelledPoint    -- ValueError "Every point in the landmark pointcloud must be labelled" (v1 / v2 parsers)
  | malformed          -- KeyError / TypeError / ValueError / IndexError on a tree the exporter never writes
  deriving DecidableEq, Repr

inductive Cls where
  | pug    -- PointUndirectedGraph
  | lpug   -- LabelledPointUndirectedGraph
  | pc     -- PointCloud (LJSON v2 without connectivity and labels)
  deriving DecidableEq, Repr

structure Imported where
  cls : Cls
  points : List (List (Option Rat))
  edges : List (Nat × Nat)            -- `.edges`: upper-triangular non-zero entries, row major
  labels : List (String × List Bool)
  deriving DecidableEq, Repr

def Json.get (k : Key) : Json → Option Json
  | .obj kvs => kvs.lookup k
  | _ => none

def decOpt : Json → Except Err (Option Rat)
  | .null => .ok none
  | .num q => .ok (some q)
  | _ => .error .malformed

def decNat : Json → Except Err Nat
  | .num q => if q.den = 1 ∧ 0 ≤ q.num then .ok q.num.toNat else .error .malformed
  | _ => .error .malformed

def decArr : Json → Except Err (List Json)
  | .arr xs => .ok xs
  | _ => .error .malformed

def decStr : Json → Except Err String
  | .str s => .ok s
  | _ => .error .malformed

def mapE {α β} (f : α → Except Err β) : List α → Except Err (List β)
  | [] => .ok []
  | a :: t => match f a with
    | .error e => .error e
    | .ok b => match mapE f t with
      | .error e => .error e
      | .ok bs => .ok (b :: bs)

/-- `reshape([-1, d])` of a flat list (`fuel` ≥ number of rows) -/
def chunksOf {α} (d : Nat) : Nat → List α → List (List α)
  | 0, _ => []
  | _, [] => []
  | fuel+1, xs => xs.take d :: chunksOf d fuel (xs.drop d)

def decRow (r : Json) : Except Err (List (Option Rat)) :=
  match decArr r with
  | .error e => .error e
  | .ok xs => mapE decOpt xs

/-- `_ljson_parse_null_values`: flatten, `None` → NaN, `reshape([-1, len(points_list[0])])` -/
def decPoints (j : Json) : Except Err (List (List (Option Rat))) :=
  match decArr j with
  | .error e => .error e
  | .ok rows => match mapE decRow rows with
    | .error e => .error e
    | .ok [] => .error .emptyPoints
    | .ok (r0 :: rs) =>
      let flat := (r0 :: rs).flatten
      let d := r0.length
      if d = 0 ∨ flat.length % d ≠ 0 then .error .malformed
      else .ok (chunksOf d (flat.length + 1) flat)

def decPair (j : Json) : Except Err (Nat × Nat) :=
  match decArr j with
  | .ok [a, b] => match decNat a, decNat b with
    | .ok x, .ok y => .ok (x, y)
    | _, _ => .error .malformed
  | _ => .error .malformed

/-- entry `(i, j)` of the symmetric adjacency matrix built from an edge list -/
def adjSym (c : List (Nat × Nat)) (i j : Nat) : Bool :=
  c.any fun e => (e.1 == i && e.2 == j) || (e.1 == j && e.2 == i)

/-- `_convert_edges_to_symmetric_adjacency_matrix(edges, n)` followed by `.edges`
(`triu(adjacency).nonzero()`, row major) -/
def symEdges (n : Nat) (c : List (Nat × Nat)) : List (Nat × Nat) :=
  (List.range n).flatMap fun i => ((List.range n).filter fun j => i ≤ j && adjSym c i j).map fun j => (i, j)

def maskOf (n : Nat) (idx : List Nat) : List Bool :=
  (List.range n).map fun i => idx.contains i

def decLabel (n : Nat) (j : Json) : Except Err (String × List Bool) :=
  match j.get .label, j.get .mask with
  | some l, some m => match decStr l, decArr m with
    | .ok name, .ok xs => match mapE decNat xs with
      | .ok idx => if idx.all (· < n) then .ok (name, maskOf n idx) else .error .malformed
      | .error e => .error e
    | _, _ => .error .malformed
  | _, _ => .error .malformed

/-- one group of `_parse_ljson_v3` -/
def decodeGroup (j : Json) : Except Err Imported :=
  match j.get .landmarks, j.get .labels with
  | some lm, some labs => match lm.get .points with
    | none => .error .malformed
    | some pj => match decPoints pj with
      | .error e => .error e
      | .ok pts =>
        let n := pts.length
        let connE : Except Err (List (Nat × Nat)) := match lm.get .connectivity with
          | none => .ok []                       -- `.get("connectivity")` is None: no edges
          | some cj => match decArr cj with
            | .error e => .error e
            | .ok cs => mapE decPair cs
        match connE with
        | .error e => .error e
        | .ok c =>
          if !(c.all fun e => e.1 < n && e.2 < n) then .error .malformed else
          match decArr labs with
          | .error e => .error e
          | .ok ls => match mapE (decLabel n) ls with
            | .error e => .error e
            | .ok labels =>
              .ok { cls := if labels.isEmpty then .pug else .lpug, points := pts,
                    edges := symEdges n c, labels := labels }
  | _, _ => .error .malformed

def decodeGroups : List (Key × Json) → Except Err (List (String × Imported))
  | [] => .ok []
  | (.user name, g) :: t => match decodeGroup g with
    | .error e => .error e
    | .ok i => match decodeGroups t with
      | .error e => .error e
      | .ok r => .ok ((name, i) :: r)
  | _ :: _ => .error .malformed

/-! ### the parsers of the two older format versions (import only: the exporter writes version 3) -/

/-- `OrderedDict.__setitem__`: a repeated label keeps its first position and takes the last mask -/
def odInsert (d : List (String × List Bool)) (k : String) (v : List Bool) : List (String × List Bool) :=
  if d.any (fun p => p.1 == k) then d.map fun p => if p.1 == k then (k, v) else p else d ++ [(k, v)]

def odFromList (l : List (String × List Bool)) : List (String × List Bool) :=
  l.foldl (fun d p => odInsert d p.1 p.2) []

/-- every point carries at least one label (`_verify_all_labels_masked`) -/
def allLabelled (n : Nat) (labels : List (String × List Bool)) : Bool :=
  (List.range n).all fun i => labels.any fun l => l.2.getD i false

/-- `LabelledPointUndirectedGraph.init_from_edges(points, connectivity, labels_to_masks)` as the two older parsers
call it: adjacency conversion first (edge indices inside the point set), then the constructor's label checks -/
def mkLpug (pts : List (List (Option Rat))) (c : List (Nat × Nat)) (labels : List (String × List Bool)) :
    Except Err Imported :=
  let n := pts.length
  if !(c.all fun e => e.1 < n && e.2 < n) then .error .edgeOutOfRange
  else if labels.isEmpty then .error .emptyLabels
  else if !(allLabelled n labels) then .error .unlabelledPoint
  else .ok { cls := .lpug, points := pts, edges := symEdges n c, labels := labels }

/-- `_ljson_parse_null_values` on rows that are already lists of numbers / nulls -/
def reshapeRows : List (List (Option Rat)) → Except Err (List (List (Option Rat)))
  | [] => .error .emptyPoints
  | r0 :: rs =>
    let flat := (r0 :: rs).flatten
    let d := r0.length
    if d = 0 ∨ flat.length % d ≠ 0 then .error .malformed
    else .ok (chunksOf d (flat.length + 1) flat)

/-- an optional `connectivity` entry: missing or `null` is "no edges" -/
def decConn (cj : Option Json) : Except Err (Option (List (Nat × Nat))) :=
  match cj with
  | none => .ok none
  | some .null => .ok none
  | some j => match decArr j with
    | .error e => .error e
    | .ok cs => match mapE decPair cs with
      | .error e => .error e
      | .ok c => .ok (some c)

/-- `_parse_ljson_v2`: one group called `LJSON`; a plain `PointCloud` when there is neither connectivity nor a
label, otherwise a `LabelledPointUndirectedGraph` (whose constructor insists on a label for every point) -/
def decodeV2 (j : Json) : Except Err (List (String × Imported)) :=
  match j.get .landmarks, j.get .labels with
  | some lm, some labs => match lm.get .points with
    | none => .error .malformed
    | some pj => match decPoints pj with
      | .error e => .error e
      | .ok pts => match decConn (lm.get .connectivity), decArr labs with
        | .error e, _ => .error e
        | _, .error e => .error e
        | .ok conn, .ok ls =>
          if conn.isNone ∧ ls.isEmpty then
            .ok [("LJSON", { cls := .pc, points := pts, edges := [], labels := [] })]
          else match mapE (decLabel pts.length) ls with
            | .error e => .error e
            | .ok labels => match mkLpug pts (conn.getD []) (odFromList labels) with
              | .error e => .error e
              | .ok i => .ok [("LJSON", i)]
  | _, _ => .error .malformed

/-- `mask[slice(a, b)] = True` on `np.zeros(n, dtype=bool)` -/
def sliceMask (n a b : Nat) : List Bool := (List.range n).map fun i => a ≤ i && i < b

/-- what `_parse_ljson_v1` has gathered after some groups -/
structure V1Acc where
  offset : Nat
  rows : List (List (Option Rat))
  slices : List (String × Nat × Nat)
  conn : List (Nat × Nat)

def decV1Point (p : Json) : Except Err (List (Option Rat)) :=
  match p.get .point with
  | some r => decRow r
  | none => .error .malformed

/-- one pass of the loop over `lms_dict["groups"]`: the group's points are appended, its label covers the slice
`offset … offset + len(landmarks)`, its (relative) connectivity is shifted by the offset -/
def v1Group (acc : V1Acc) (g : Json) : Except Err V1Acc :=
  match g.get .landmarks, g.get .label with
  | some lms, some lab => match decArr lms, decStr lab, decConn (g.get .connectivity) with
    | .ok ps, .ok name, .ok conn => match mapE decV1Point ps with
      | .error e => .error e
      | .ok rows =>
        .ok { offset := acc.offset + ps.length, rows := acc.rows ++ rows,
              slices := acc.slices ++ [(name, acc.offset, acc.offset + ps.length)],
              conn := acc.conn ++ (conn.getD []).map fun e => (e.1 + acc.offset, e.2 + acc.offset) }
    | .error e, _, _ => .error e
    | _, .error e, _ => .error e
    | _, _, .error e => .error e
  | _, _ => .error .malformed

def v1Groups : V1Acc → List Json → Except Err V1Acc
  | acc, [] => .ok acc
  | acc, g :: t => match v1Group acc g with
    | .error e => .error e
    | .ok acc' => v1Groups acc' t

/-- `_parse_ljson_v1`: all groups concatenated into ONE labelled graph called `LJSON`, one label per group -/
def decodeV1 (j : Json) : Except Err (List (String × Imported)) :=
  match j.get .groups with
  | some (.arr gs) => match v1Groups ⟨0, [], [], []⟩ gs with
    | .error e => .error e
    | .ok acc => match reshapeRows acc.rows with
      | .error e => .error e
      | .ok pts =>
        let labels := odFromList (acc.slices.map fun s => (s.1, sliceMask pts.length s.2.1 s.2.2))
        match mkLpug pts acc.conn labels with
        | .error e => .error e
        | .ok i => .ok [("LJSON", i)]
  | _ => .error .malformed

/-- `ljson_importer`: version dispatch (`_ljson_parser_for_version`), then the parser of that version -/
def decodeDoc (j : Json) : Except Err (List (String × Imported)) :=
  match j.get .version with
  | some (.num v) =>
    if v = 3 then
      match j.get .groups with
      | some (.obj kvs) => decodeGroups kvs
      | _ => .error .malformed
    else if v = 2 then decodeV2 j
    else if v = 1 then decodeV1 j
    else .error .unknownVersion
  | _ => .error .unknownVersion

/-- what the property requires of the re-imported group -/
def expectedImport (s : Shape) : Imported :=
  { cls := if s.labels.isEmpty then .pug else .lpug, points := s.points,
    edges := symEdges s.points.length (s.conn.getD []), labels := s.labels }

/-- a landmark group the property quantifies over: `n ≥ 1` points of dimension 2 or 3, edges and label
masks inside the point set -/
def Shape.WF (s : Shape) : Prop :=
  s.points ≠ [] ∧ (∃ d, (d = 2 ∨ d = 3) ∧ ∀ r ∈ s.points, r.length = d) ∧
  (∀ e ∈ s.conn.getD [], e.1 < s.points.length ∧ e.2 < s.points.length) ∧
  (∀ l ∈ s.labels, l.2.length = s.points.length)

/-! ## 2. PTS: `pts[:, [1, 0]] + 1` written with `%.3f`; read back as `[ys - 1, xs - 1]` -/

/-- round to nearest integer, ties to even -/
def roundHalfEven (q : Rat) : Int :=
  let f := q.floor
  let r := q - f
  if r < 1/2 then f else if 1/2 < r then f + 1 else if f % 2 = 0 then f else f + 1

/-- `"%.3f" % x` read back as a number (contract: correctly rounded decimal of the exact value) -/
def fmt3 (q : Rat) : Rat := (roundHalfEven (q * 1000) : Rat) / 1000

/-- the two columns `pts_exporter` writes for the point `(y, x)` (menpo order: first axis = y) -/
def ptsExport (p : Rat × Rat) : Rat × Rat := (fmt3 (p.2 + 1), fmt3 (p.1 + 1))

/-- `pts_importer(image_origin=True)`: `xpos, ypos = line.split()[:2]`, point = `(ypos - 1, xpos - 1)` -/
def ptsImport (c : Rat × Rat) : Rat × Rat := (c.2 - 1, c.1 - 1)

def ptsRoundTrip (pts : List (Rat × Rat)) : List (Rat × Rat) := pts.map fun p => ptsImport (ptsExport p)

/-! ## 3. Eight-bit range conversion on IEEE binary64: `Core/C16Pix.lean` (a file of its own so that the kernel
evaluation over all 256 values in `Lemmas/C16Float.lean` is rebuilt only when those definitions change) -/

/-! ### float images: the quantisation in exact arithmetic (`x ∈ [0, 1]`, level = 1/255) -/

def quantTrunc (x : Rat) : Int := (x * 255).floor
def quantRound (x : Rat) : Int := roundHalfEven (x * 255)
/-- the value an importer with `normalize=True` returns for the stored level -/
def renorm (n : Int) : Rat := (n : Rat) / 255

/-! ### channel layout: `as_PILImage` (channels to the back) and `init_from_channels_at_back` -/

inductive Mode where
  | L | RGB
  deriving DecidableEq, Repr

/-- `as_PILImage`: 1 channel → mode L, 3 channels → mode RGB, anything else is a `ValueError` -/
def pilMode (nChannels nDims : Nat) : Option Mode :=
  if nDims ≠ 2 then none else if nChannels = 1 then some .L else if nChannels = 3 then some .RGB else none

/-- pixel `(r, c, ch)` of the array handed to PIL is pixel `(ch, r, c)` of the menpo image -/
def toBack {α} (img : Nat → Nat → Nat → α) : Nat → Nat → Nat → α := fun r c ch => img ch r c
/-- and back (`init_from_channels_at_back`) -/
def toFront {α} (arr : Nat → Nat → Nat → α) : Nat → Nat → Nat → α := fun ch r c => arr r c ch

/-! ## 4. Paths, extensions and the overwrite guard -/

abbrev Comp := List Char
abbrev Path := List Comp      -- components of an absolute, normalised path

/-- `s.split(sep)` -/
def splitC (sep : Char) : List Char → List (List Char)
  | [] => [[]]
  | c :: cs =>
    if c = sep then [] :: splitC sep cs
    else match splitC sep cs with
      | [] => [[c]]
      | h :: t => (c :: h) :: t

/-- one step of `os.path.normpath` on an absolute path (stack kept reversed): empty and `.` components
vanish, `..` pops (and is dropped at the root) -/
def normStep (st : List Comp) (c : Comp) : List Comp :=
  if c = [] ∨ c = ['.'] then st
  else if c = ['.', '.'] then st.tail
  else c :: st

def normAbs (cs : List Comp) : Path := (cs.foldl normStep []).reverse

/-- `os.environ` as far as `_norm_path` reads it (`HOME` among the variables) -/
structure Env where
  vars : List (List Char × List Char)
  deriving Repr

def Env.get (env : Env) (k : List Char) : Option (List Char) := (env.vars.find? fun p => p.1 == k).map fun p => p.2

/-- `str(pathlib.Path(s))` on POSIX: empty and `.` components vanish (also a LEADING `./`), the root is `/` — or `//`
for exactly two leading slashes —, the empty path is `.`.  Every exporter turns a `str` into a `Path` before the
guard looks at it, so this is what `_norm_path` is handed. -/
def pathStr (s : List Char) : List Char :=
  let root : List Char := match s with
    | '/' :: '/' :: '/' :: _ => ['/']
    | '/' :: '/' :: _ => ['/', '/']
    | '/' :: _ => ['/']
    | _ => []
  let parts := (splitC '/' s).filter fun c => !(c == [] || c == ['.'])
  if root == [] && parts == [] then ['.'] else root ++ ['/'].intercalate parts

def rstripSlash (h : List Char) : List Char := (h.reverse.dropWhile (· == '/')).reverse

/-- `posixpath.expanduser`: only a leading `~` is special.  `~` alone (up to the first `/`) is `$HOME` without its
trailing slashes (`/` if that leaves nothing); `~name` asks the password database — contract: the user does not exist,
the path is returned unchanged; so is `~` when `HOME` is not set (then Python asks the password database, too). -/
def expandUser (env : Env) (s : List Char) : List Char :=
  match s with
  | '~' :: rest =>
    if (rest.takeWhile (· != '/')) == [] then
      match env.get ['H', 'O', 'M', 'E'] with
      | none => s
      | some h =>
        let r := rstripSlash h ++ rest
        if r == [] then ['/'] else r
    else s
  | _ => s

/-- `\w` under `re.ASCII` -/
def isWordC (c : Char) : Bool := c.isAlphanum || c == '_'

/-- `posixpath.expandvars`: `$name` and `${name}` are replaced when the variable is set and left alone when it is not;
the inserted value is not scanned again; `${` without a closing brace and a `$` followed by no word character are
ordinary text.  (`fuel` ≥ length of the string.) -/
def expandVarsF (env : Env) : Nat → List Char → List Char
  | 0, s => s
  | _, [] => []
  | f+1, '$' :: rest =>
    match rest with
    | '{' :: r2 =>
      if r2.contains '}' then
        let name := r2.takeWhile (· != '}')
        let after := (r2.dropWhile (· != '}')).drop 1
        match env.get name with
        | some v => v ++ expandVarsF env f after
        | none => '$' :: '{' :: (name ++ '}' :: expandVarsF env f after)
      else '$' :: expandVarsF env f rest
    | _ =>
      let name := rest.takeWhile isWordC
      if name == [] then '$' :: expandVarsF env f rest
      else
        let after := rest.dropWhile isWordC
        match env.get name with
        | some v => v ++ expandVarsF env f after
        | none => '$' :: (name ++ expandVarsF env f after)
  | f+1, c :: rest => c :: expandVarsF env f rest

def expandVars (env : Env) (s : List Char) : List Char := expandVarsF env (s.length + 1) s

/-- `Path(abspath(normpath(expandvars(expanduser(t)))))` for the string `t` that `str(filepath)` returns
(a POSIX path; a result with exactly two leading slashes is not generated) -/
def normPathRaw (env : Env) (cwd : Path) (t : List Char) : Path :=
  let e := expandVars env (expandUser env t)
  match e with
  | '/' :: _ => normAbs (splitC '/' e)
  | _ => normAbs (cwd ++ splitC '/' e)

/-- `_norm_path(Path(s))`: what `_validate_filepath` checks and `_export` / `export_pickle` open -/
def normPath (env : Env) (cwd : Path) (s : List Char) : Path := normPathRaw env cwd (pathStr s)

/-- `PurePath.suffixes` (Python 3.12) of a file name -/
def suffixes (name : List Char) : List (List Char) :=
  if name.getLast? = some '.' then []
  else ((splitC '.' (name.dropWhile (· = '.'))).drop 1).map fun s => '.' :: s

/-- `_possible_extensions_from_filepath`: `["".join(suffixes[i:]).lower() for i in range(len(suffixes))]` -/
def candidates : List (List Char) → List (List Char)
  | [] => []
  | s :: t => ((s :: t).flatten.map Char.toLower) :: candidates t

/-- `_parse_and_validate_extension` with no user extension: the first (= longest) candidate the map knows -/
def parseExt (known : List (List Char)) (name : List Char) : Option (List Char) :=
  (candidates (suffixes name)).find? fun c => known.contains c

inductive Kind where
  | landmark | image | pickle | video
  deriving DecidableEq, Repr

def extTable : Kind → List String
  | .landmark => [".ljson", ".pts"]
  | .image => [".bmp", ".dib", ".dcx", ".eps", ".ps", ".gif", ".im", ".jpg", ".jpe", ".jpeg", ".pcd", ".pcx",
               ".png", ".pbm", ".pgm", ".ppm", ".psd", ".tif", ".tiff", ".xbm", ".xpm"]
  | .pickle => [".pkl", ".pkl.gz"]
  | .video => [".mov", ".avi", ".mpg", ".mpeg", ".mp4", ".mkv", ".wmv", ".gif"]

def knownExts (k : Kind) : List (List Char) := (extTable k).map String.toList

/-- the file system as far as the guard can see it: which paths exist, and (abstractly) what they hold -/
abbrev FS := Path → Option Nat

def FS.write (fs : FS) (p : Path) (c : Nat) : FS := fun q => if q = p then some c else fs q

structure Op where
  kind : Kind
  spelling : List Char
  userExt : Option (List Char)    -- the `extension=` argument, already `_normalize_extension`ed
  overwrite : Bool
  content : Nat
  asStr : Bool := false           -- the path was given as a `str` (not a `pathlib.Path`)
  deriving Repr

inductive Outcome where
  | written | overwriteError | valueError
  deriving DecidableEq, Repr

/-- the decision of one export, as a function of the *normalised* path `p` that is checked and the path `w` that is
written: `_validate_filepath` first (OverwriteError), then `_parse_and_validate_extension` (ValueError), then the
write.  `export_pickle`, `_export`, `_export_paths_only` all go through these two in this order. -/
def exportAtW (fs : FS) (p w : Path) (kind : Kind) (userExt : Option (List Char)) (overwrite : Bool) (content : Nat) :
    Outcome × FS :=
  if (fs p).isSome ∧ overwrite = false then (.overwriteError, fs)
  else match parseExt (knownExts kind) (p.getLast?.getD []) with
    | none => (.valueError, fs)
    | some e =>
      if userExt.isSome ∧ userExt ≠ some e then (.valueError, fs)
      else (.written, fs.write w content)

/-- an export that writes the path it checked -/
def exportAt (fs : FS) (p : Path) (kind : Kind) (userExt : Option (List Char)) (overwrite : Bool) (content : Nat) :
    Outcome × FS := exportAtW fs p p kind userExt overwrite content

/-- one export: checked path = written path (`_export`, `export_pickle`, and `_export_paths_only` since adfd5d8) -/
def export1 (env : Env) (cwd : Path) (fs : FS) (op : Op) : Outcome × FS :=
  exportAt fs (normPath env cwd op.spelling) op.kind op.userExt op.overwrite op.content

/-- the path an export wrote AS CODED UNTIL /repo commit adfd5d8 ("fix: export_video checked the overwrite guard on one
spelling of a str path and wrote to another"): `_export_paths_only` (the video exporter) checked
`_norm_path(Path(file_path))` but handed its exporter `_norm_path(file_path)` of the argument as given — for a `str`
that is the raw spelling, which `pathlib` has not cleaned (`./~/v.mp4` stays `./~/v.mp4`, whereas `Path('./~/v.mp4')`
is `~/v.mp4` = `$HOME/v.mp4`).  Since the fix the `str` is converted first and the exporter writes what was checked
(`export1`).  Both variants are kept: the driver reports both, the harness records which one the tree under test is. -/
def writePathCoded (env : Env) (cwd : Path) (op : Op) : Path :=
  if op.kind = .video ∧ op.asStr = true then normPathRaw env cwd op.spelling else normPath env cwd op.spelling

def export1Coded (env : Env) (cwd : Path) (fs : FS) (op : Op) : Outcome × FS :=
  exportAtW fs (normPath env cwd op.spelling) (writePathCoded env cwd op) op.kind op.userExt op.overwrite op.content

/-- any sequence of exports -/
def runHistoryWith (step : FS → Op → Outcome × FS) : FS → List Op → List Outcome × FS
  | fs, [] => ([], fs)
  | fs, op :: ops =>
    let r := step fs op
    let rest := runHistoryWith step r.2 ops
    (r.1 :: rest.1, rest.2)

def runHistory (env : Env) (cwd : Path) : FS → List Op → List Outcome × FS
  | fs, [] => ([], fs)
  | fs, op :: ops =>
    let r := export1 env cwd fs op
    let rest := runHistory env cwd r.2 ops
    (r.1 :: rest.1, rest.2)

def runHistoryCoded (env : Env) (cwd : Path) : FS → List Op → List Outcome × FS :=
  runHistoryWith (export1Coded env cwd)

end MenpoModel.C16
