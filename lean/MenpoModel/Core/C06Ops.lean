/-
C06, part 3 — histories on the heap: the public mutators as operations on the heap model of
`Core/C06Heap.lean`, interleaved with `copy()`.  Core Lean only.

The caller holds a list of *roots* (the original, its copies, copies of copies …).  Every operation
is performed *through* one root: it names the cell it changes by an access path from that root
(`o.landmarks['a'].points` = `["_landmarks", "_landmark_groups", "ka", "points"]`), and `resolve`
follows that path through owned slots only — the documented sharing (`_source`/`_target` of a
`HomogFamilyAlignment`, the members of a `TransformChain`, `CachedPWA._iab`) is not owned and cannot
be written through a root (the property excludes it).

  copy i                   roots.append(roots[i].copy())            `copyCall` under the resolved table
  write i p d              o<p>[...] = d                            in-place write into an ndarray / sparse
  putFresh i p x frag      o<p>.x = <freshly built object graph>    `pc.points = arr` (`_from_vector_inplace`),
                                                                    `_set_h_matrix`,  `set_target(new_pc)` (the new
                                                                    target and the re-fitted arrays), the lazily
                                                                    created `LandmarkManager` of `.landmarks`
  putImm i p x             o<p>.x = None / a number / a string      caches reset, counters, flags
  putCopy i p x j q        o_i<p>[x] = o_j<q>.copy()                `shape.landmarks['k'] = group`
                                                                    (`LandmarkManager.__setitem__`),
                                                                    `image.landmarks = other.landmarks`
                                                                    (`Landmarkable.landmarks` setter)
  del i p x                del o<p>[x]                              `del lm['k']`

`putSlot` is Python's `dict.__setitem__` / attribute assignment (an existing name keeps its
position, a new one goes last).  A fragment `frag` is a list of cells to be appended to the heap;
`fragOK` checks that it refers only to itself, children first, so that it *is* fresh; its last cell
is the value stored.

`step` is partial: an operation naming something that does not exist, a `copy` of a heap that
does not conform to the regenerated tables (`wtHeap`, the hypothesis of `copy_independent`) or a
`copyCall` that fails is refused (`Except.error`) and the theorems speak about accepted histories;
the driver executes this very function on the histories the harness runs on the real classes.
-/
import MenpoModel.Lemmas.C06Fresh

namespace MenpoModel.C06

/-- `d[x] = v` / `o.x = v`: an existing name keeps its position, a new name goes last -/
def putSlot : Slots → String → Val → Slots
  | [], x, v => [(x, v)]
  | (y, w) :: t, x, v => if y == x then (y, v) :: t else (y, w) :: putSlot t x v

/-- `del d[x]` -/
def dropSlot (fs : Slots) (x : String) : Slots := fs.filter (fun p => p.1 != x)

abbrev Path := List String

/-- follow an access path from cell `a` through owned slots only; the result is the cell reached
and how far ownership extends there (`full` / `shallow`, never `stop`) -/
def resolve (res : String → CopyImpl) (h : Heap) : Lim → Nat → Path → Option (Nat × Lim)
  | .stop, _, _ => none
  | .full, a, [] => some (a, .full)
  | .shallow, a, [] => some (a, .shallow)
  | .shallow, _, _ :: _ => none
  | .full, a, x :: p =>
    match h[a]? with
    | some (.node k fs) =>
      match fs.lookup x with
      | some (.ref b) => resolve res h (childLim res k x) b p
      | _ => none
    | _ => none

/-- a fragment to be appended at address `n` refers only to itself, children first -/
def fragOK (n : Nat) (frag : List Cell) : Bool :=
  !frag.isEmpty && (List.range frag.length).all fun t =>
    match frag[t]? with
    | some (.node _ fs) => fs.all fun p =>
        match p.2 with
        | .imm _ => true
        | .ref b => decide (n ≤ b) && decide (b < n + t)
    | _ => true

/-- the caller's view: a heap and the objects it holds -/
structure HW where
  heap : Heap
  roots : List Nat
deriving Repr, Inhabited

inductive HErr where
  | badRoot      -- no such root
  | badPath      -- the path does not lead to an owned cell (of the required sort)
  | badCell      -- the cell is not of the sort the operation needs
  | badFrag      -- the fragment is not self-contained
  | missing      -- KeyError
  | illTyped     -- the heap does not conform to the regenerated tables
  | copyFailed (e : Err)
deriving DecidableEq, Repr

inductive HOp where
  | copy (i : Nat)
  | write (i : Nat) (p : Path) (d : List Int)
  | putFresh (i : Nat) (p : Path) (x : String) (frag : List Cell)
  | putImm (i : Nat) (p : Path) (x : String)
  | putCopy (i : Nat) (p : Path) (x : String) (j : Nat) (q : Path)
  | del (i : Nat) (p : Path) (x : String)
deriving Repr

/-- the root an operation acts through (`copy` acts through none: it only allocates) -/
def HOp.actor : HOp → Option Nat
  | .copy _ => none
  | .write i _ _ => some i
  | .putFresh i _ _ _ => some i
  | .putImm i _ _ => some i
  | .putCopy i _ _ _ _ => some i
  | .del i _ _ => some i

def NodeKind.assignable : NodeKind → Bool
  | .frozen => false
  | _ => true

/-- `v.copy()` of the cell at `s`, as the mutators and the caller use it: the heap must conform to
the tables and `s` must be something whose own `copy()` is deep (an object, an array, a container of
immutables) -/
def copyAt (tbl : AttrTable) (sup : SupplierTable) (h : Heap) (s : Nat) : Except HErr (Heap × Nat) :=
  if wtHeap tbl sup h && standaloneK (kindOf h (.ref s)) then
    match copyCall (resOf sup) (h.length + 2) h (.ref s) with
    | .ok (h1, .ref c) => .ok (h1, c)
    | .ok (_, .imm _) => .error .badCell
    | .error e => .error (.copyFailed e)
  else .error .illTyped

/-- the owned node cell at path `p` from root `i` (ownership must extend to its slots) -/
def nodeAt (res : String → CopyImpl) (w : HW) (i : Nat) (p : Path) : Except HErr (Nat × NodeKind × Slots) :=
  match w.roots[i]? with
  | none => .error .badRoot
  | some r =>
    match resolve res w.heap .full r p with
    | some (a, .full) =>
      match w.heap[a]? with
      | some (.node k fs) => .ok (a, k, fs)
      | _ => .error .badCell
    | _ => .error .badPath

def stepH (tbl : AttrTable) (sup : SupplierTable) (w : HW) : HOp → Except HErr HW
  | .copy i =>
    match w.roots[i]? with
    | none => .error .badRoot
    | some r =>
      match copyAt tbl sup w.heap r with
      | .ok (h1, c) => .ok ⟨h1, w.roots ++ [c]⟩
      | .error e => .error e
  | .write i p d =>
    match w.roots[i]? with
    | none => .error .badRoot
    | some r =>
      match resolve (resOf sup) w.heap .full r p with
      | none => .error .badPath
      | some (b, _) =>
        match w.heap[b]? with
        | some (.buf _) => .ok ⟨w.heap.set b (.buf d), w.roots⟩
        | _ => .error .badCell
  | .putFresh i p x frag =>
    match nodeAt (resOf sup) w i p with
    | .error e => .error e
    | .ok (a, k, fs) =>
      if k.assignable then
        if fragOK w.heap.length frag then
          .ok ⟨(w.heap ++ frag).set a (.node k (putSlot fs x (.ref (w.heap.length + frag.length - 1)))), w.roots⟩
        else .error .badFrag
      else .error .badCell
  | .putImm i p x =>
    match nodeAt (resOf sup) w i p with
    | .error e => .error e
    | .ok (a, k, fs) =>
      if k.assignable then .ok ⟨w.heap.set a (.node k (putSlot fs x (.imm 0))), w.roots⟩
      else .error .badCell
  | .putCopy i p x j q =>
    match nodeAt (resOf sup) w i p with
    | .error e => .error e
    | .ok (a, k, fs) =>
      if k.assignable then
        match w.roots[j]? with
        | none => .error .badRoot
        | some rj =>
          match resolve (resOf sup) w.heap .full rj q with
          | none => .error .badPath
          | some (s, _) =>
            match copyAt tbl sup w.heap s with
            | .ok (h1, c) => .ok ⟨h1.set a (.node k (putSlot fs x (.ref c))), w.roots⟩
            | .error e => .error e
      else .error .badCell
  | .del i p x =>
    match nodeAt (resOf sup) w i p with
    | .error e => .error e
    | .ok (a, k, fs) =>
      if k == .dict then
        if (fs.lookup x).isSome then .ok ⟨w.heap.set a (.node k (dropSlot fs x)), w.roots⟩
        else .error .missing
      else .error .badCell

/-- a history: refused as a whole as soon as one operation is refused -/
def runH (tbl : AttrTable) (sup : SupplierTable) : HW → List HOp → Except HErr HW
  | w, [] => .ok w
  | w, op :: t =>
    match stepH tbl sup w op with
    | .ok w1 => runH tbl sup w1 t
    | .error e => .error e

/-- the caller's roots own pairwise disjoint sets of cells (in a closed heap) -/
structure Sep (res : String → CopyImpl) (w : HW) : Prop where
  closed : Closed w.heap
  valid : ∀ (i r : Nat), w.roots[i]? = some r → r < w.heap.length
  disj : ∀ (i j ri rj : Nat), i ≠ j → w.roots[i]? = some ri → w.roots[j]? = some rj →
    ∀ b, Own res w.heap .full (.ref ri) b → Own res w.heap .full (.ref rj) b → False

/-! ### the regenerated table of mutator effects (`Generated/C06Effects.lean`) -/

inductive EffOp where
  | write    -- in-place write into an owned array
  | fresh    -- a slot of an owned cell is rebound to a freshly built object graph
  | imm      -- … to None / a number / a string
  | del      -- a key of an owned dict is deleted
  | opaque   -- anything else (a cell the receiver does not own, a reference to an existing cell …)
deriving DecidableEq, Repr

/-- one observed update: `cell` = sort of the updated cell (B / D / L / F / O), `cls` its class when it is an
object, `x` the attribute (blank for containers), `k` the runtime kind of what was stored -/
structure Eff where
  op : EffOp
  cell : String
  cls : String
  x : String
  k : Kind
deriving Repr

def kindListed (tbl : AttrTable) (C x : String) (k : Kind) : Bool :=
  match tbl.lookup C with
  | some attrs =>
    match attrs.lookup x with
    | some ks => ks.contains k
    | none => false
  | none => false

/-- the obligation on one effect of mutator `m` of class `C` -/
def effOK (tbl : AttrTable) (sharing : List (String × String)) (C m : String) (e : Eff) : Bool :=
  match e.op with
  | .opaque => sharing.contains (C, m)
  | .fresh => e.cell != "O" || kindListed tbl e.cls e.x e.k
  | .imm => e.cell != "O" || kindListed tbl e.cls e.x (.elem .imm)
  | _ => true

end MenpoModel.C06
