/-
C03 — the dtype of `h_matrix` along compositions (core Lean only).

`Homogeneous(M)`, `Affine(M)`, `Similarity(M)` keep the array they are given (copied or not), so an object can hold an
integer-typed or a single-precision matrix.  Composition multiplies with `np.dot`, whose result has numpy's PROMOTED
type, and `_set_h_matrix(product, copy=False)` stores that array as it is: an in-place call can change the dtype of
the receiver (int64 · float64 = float64) and never narrows it.  This file says which dtype every object of a program
has (`stepT`, executed by the driver and compared with the real `h_matrix.dtype` after every program) and what storing
into a dtype does to the values (`storeAs`: an integer array truncates), so that the composition law can be stated for
typed matrices (`Props/C03Dtype.lean`): under promotion nothing is ever lost; casting the product back to the
receiver's dtype (a change seeded into the code once, caught by the oracle) breaks the law.

Float rounding stays outside the model (float32 / float64 hold exact rationals here, DESIGN.md section 3).
-/
import MenpoModel.Core.C03Compose

namespace MenpoModel.C03

/-- the dtypes an `h_matrix` has in the harness's programs -/
inductive DT
  | int64 | float32 | float64
deriving DecidableEq, Repr

/-- `np.result_type(a, b)` -/
def DT.promote : DT → DT → DT
  | .int64, .int64 => .int64
  | .float32, .float32 => .float32
  | _, _ => .float64

/-- truncation towards zero (`ndarray.astype(int)` / storing a float into an integer array) -/
def ratTrunc (x : Rat) : Rat := if x < 0 then -((-x).floor : Int) else (x.floor : Int)

/-- the value an array of dtype `dt` holds after `x` was stored into it -/
def storeAs (dt : DT) (x : Rat) : Rat :=
  match dt with
  | .int64 => ratTrunc x
  | _ => x

/-- a matrix together with the dtype of the array that holds it -/
structure TMat (n : Nat) where
  dt : DT
  M : Mat n

/-- `arr.astype(dt)` -/
def TMat.astype {n : Nat} (a : TMat n) (dt : DT) : TMat n := ⟨dt, ⟨fun i j => storeAs dt (a.M i j)⟩⟩

/-- `np.dot(a, b)`: computed and returned in the promoted dtype -/
def TMat.dot {n : Nat} (a b : TMat n) : TMat n :=
  (⟨a.dt.promote b.dt, Mat.mul a.M b.M⟩ : TMat n).astype (a.dt.promote b.dt)

variable {d : Nat}

/-- `Homogeneous._compose_before_inplace` / `_compose_after_inplace` on typed matrices:
`_set_h_matrix(np.dot(t.h, self.h), copy=False)` / `_set_h_matrix(np.dot(self.h, t.h), copy=False)` -/
def rawComposeT (dir : Dir) (s t : TMat (d + 1)) : TMat (d + 1) :=
  match dir with
  | .before => t.dot s
  | .after => s.dot t

/-- the same with the product cast back to the receiver's dtype (`np.dot(…).astype(self.h_matrix.dtype)`): NOT what
menpo does; kept for the refutation `cast_to_receiver_breaks_law` -/
def rawComposeCast (dir : Dir) (s t : TMat (d + 1)) : TMat (d + 1) :=
  (rawComposeT dir s t).astype s.dt

/-! ### the dtype of every object of a program -/

/-- the dtype of each store cell (`none`: the cell is no family object) -/
abbrev Tags := List (Option DT)

/-- dtype of the matrix of `self.from_vector(v)` for a float64 vector `v`: `Homogeneous` reshapes the vector,
`Affine` and `Similarity` build a fresh float64 matrix, the other classes write into a copy of their own matrix -/
def fvTag (c : HCls) (self : DT) : DT :=
  match baseOf c with
  | .Homogeneous | .Affine | .Similarity => .float64
  | _ => self

def tagOf (ts : Tags) (i : Nat) : Option DT := (ts[i]?).bind id

def promote? (a b : Option DT) : Option DT :=
  match a, b with
  | some x, some y => some (x.promote y)
  | _, _ => none

/-- one statement on store and tags: a refused statement changes nothing; the result of a non-in-place call between
two family objects and the receiver of an accepted in-place call have the promoted dtype of the two operands -/
def stepT (tbl : ClassTable) (p : Store × Tags) (s : Stmt) : Store × Tags :=
  match step tbl p.1 s with
  | .error _ => p
  | .ok (st', _) =>
    match s with
    | .compose _ a b =>
      (st', p.2 ++ [match st'[p.1.length]? with
        | some (.fam _ _) => promote? (tagOf p.2 a) (tagOf p.2 b)
        | _ => none])
    | .inplace _ a b =>
      (st', match p.1[a]? with
        | some (.fam _ _) => p.2.set a (promote? (tagOf p.2 a) (tagOf p.2 b))
        | _ => p.2)
    | .fromVector a _ =>
      (st', match p.1[a]? with
        | some (.fam _ t) => p.2.set a ((tagOf p.2 a).map fun x => x.promote (fvTag t.cls x))
        | _ => p.2)

def runT (tbl : ClassTable) (p : Store × Tags) (ss : List Stmt) : Store × Tags := ss.foldl (stepT tbl) p

end MenpoModel.C03
