/-
C16 — the points format for shapes of any dimension and with missing coordinates.  Executable model, core Lean only.

  pts_exporter   `pts[:, [1, 0]] + 1` written with `%.3f`  — only the first two axes are written, whatever the
                 dimension of the shape (a shape with fewer than two axes is an IndexError); NaN is printed `nan`
  pts_importer   `[ys - 1, xs - 1]` of the first two columns; `nan` is read as NaN
-/
import MenpoModel.Core.C16

namespace MenpoModel.C16

/-- `'%.3f' % (v + 1)` read back, `nan` for a missing value -/
def fmt3O (v : Option Rat) : Option Rat := v.map fun q => fmt3 (q + 1)

/-- the two columns written for one point (`none` = IndexError: the shape has fewer than two axes) -/
def ptsExportRow (r : List (Option Rat)) : Option (Option Rat × Option Rat) :=
  match r with
  | y :: x :: _ => some (fmt3O x, fmt3O y)
  | _ => none

def ptsImportRow (c : Option Rat × Option Rat) : List (Option Rat) := [c.2.map (· - 1), c.1.map (· - 1)]

def ptsRoundTripRow (r : List (Option Rat)) : Option (List (Option Rat)) := (ptsExportRow r).map ptsImportRow

def allSome {α} : List (Option α) → Option (List α)
  | [] => some []
  | none :: _ => none
  | some a :: t => (allSome t).map (a :: ·)

/-- export then import of a whole shape -/
def ptsRoundTripN (pts : List (List (Option Rat))) : Option (List (List (Option Rat))) :=
  allSome (pts.map ptsRoundTripRow)

end MenpoModel.C16
