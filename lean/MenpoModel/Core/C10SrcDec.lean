/-
C10 — vocabulary of the TRANSLATED `menpo/math/decomposition.py` (`Generated/C10SrcDec.lean`, rewritten by
harness/trans_c10.py on every `./check C10`).  Core Lean only.

* `eigenvalue_decomposition`: the eigen-witness (`np.linalg.eigh` / `eigsh`: contract parameters) is a list of eigenvalues
  and a parallel list of eigenvector columns (any payload type); numpy's fancy indexing with an index array
  (`a[index]`, `a[:, index]`) and with a Boolean mask (`a[mask]`, `a[:, mask]`) is `PyIdx.idx`, `np.argsort(a)[::-1]` is
  `argsortDesc` (defined through the Core `sortDesc`, ties excluded by the generators as the property text does);
* `pca` / `pcacov`: the arrays are symbolic values of a type `A`, numpy's operations are the fields of `ND A`; what is
  modelled is WHICH operation is applied to WHICH operand in WHICH branch (centre / not, `d < n` covariance path or
  Gram path, normaliser `n - 1`, symmetrisation, `is_inverse`, `eps`, transposition, Gram rescale).
-/
import MenpoModel.Core.C10Book

namespace MenpoModel.C10.Src
open MenpoModel.C10

/-- `np.argsort(a)[::-1]` -/
def argsortDesc (a : List Rat) : List Nat := (sortDesc (a.zip (List.range a.length))).map Prod.snd

/-- numpy indexing of an array (a list of entries / of columns) by an index array or by a Boolean mask -/
class PyIdx (ι : Type) where
  idx : {α : Type} → List α → List ι → List α

instance : PyIdx Nat := ⟨fun a is => is.filterMap fun i => a[i]?⟩
instance : PyIdx Bool := ⟨fun a m => (a.zip m).filterMap fun p => if p.2 then some p.1 else none⟩

/-! ### `pca` / `pcacov`: symbolic arrays -/

/-- numpy on symbolic arrays -/
structure ND (A : Type) where
  /-- `X.shape` of a data matrix -/
  shape : A → Nat × Nat
  /-- `np.mean(X, axis=0)` -/
  meanRows : A → A
  /-- `np.zeros(d, dtype=…)` (float dtype: see the fix `d29b6f3`) -/
  zeros : Nat → A
  /-- `X - m` (both the in-place and the copying form) -/
  sub : A → A → A
  /-- `np.dot(a, b)` / `dot_inplace_right(a, b)` -/
  dot : A → A → A
  /-- `a.conj().T`, `a.T` -/
  T : A → A
  /-- `a / s` -/
  divS : A → Rat → A
  /-- `a + b` -/
  add : A → A → A
  /-- `eigenvalue_decomposition(C, is_inverse=, eps=)` ↦ `(eigenvectors, eigenvalues)` -/
  eigDec : A → Bool → Rat → A × A
  /-- `np.sqrt(1.0 / ((n - 1) * l))` -/
  rsqrtScaled : Nat → A → A
  /-- `U *= w[:, None]` -/
  scaleRows : A → A → A
  /-- `C.shape[0] != C.shape[1]` -/
  notSquare : A → Bool

variable {A : Type}

/-- `(C + C.conj().T) / 2.0` -/
def ND.symm (np : ND A) (C : A) : A := np.divS (np.add C (np.T C)) 2

/-- `menpo.math.pca(X, centre, inplace, eps)`: (eigenvectors as rows, eigenvalues, mean) -/
def pcaPlan (np : ND A) (X : A) (centre : Bool) (eps : Rat) : A × A × A :=
  let n := (np.shape X).1
  let d := (np.shape X).2
  let m := if centre then np.meanRows X else np.zeros d
  let Xc := np.sub X m
  if d < n then
    let C := np.symm (np.divS (np.dot (np.T Xc) Xc) ((n : Rat) - 1))
    let e := np.eigDec C false eps
    (np.T e.1, e.2, m)
  else
    let C := np.symm (np.divS (np.dot Xc (np.T Xc)) ((n : Rat) - 1))
    let e := np.eigDec C false eps
    (np.scaleRows (np.dot (np.T e.1) Xc) (np.rsqrtScaled n e.2), e.2, m)

/-- `menpo.math.pcacov(C, is_inverse, eps)` -/
def pcacovPlan (np : ND A) (C : A) (isInverse : Bool) (eps : Rat) : Except Err (A × A) :=
  if np.notSquare C then .error .value
  else
    let e := np.eigDec (np.symm C) isInverse eps
    .ok (np.T e.1, e.2)

end MenpoModel.C10.Src
