/-
C15 — labelled landmark groups and the predefined index-based labellers.  Core Lean only.

Transcribed from menpo/shape/labelled.py (`LabelledPointUndirectedGraph.__init__`,
`_verify_all_labels_masked`, `_new_group_with_only_labels`, `with_labels`, `without_labels`,
`get_label`, `add_label`, `remove_label`), menpo/shape/graph.py (`PointUndirectedGraph.from_mask`,
`_mask_adjacency_matrix_and_points`) and menpo/landmark/labels/base.py (`validate_input`,
`labeller_func`, `pcloud_and_lgroup_from_ranges`, `indices_to_masks`).

A labelled graph is `(points, undirected edge list, ordered label → boolean mask)`; the point payload
`α` is abstract (coordinates never enter the selection logic).  Every operation returns a new value
(the Python methods build new objects, the receiver is untouched).
-/

namespace MenpoModel.C15

/-! ### boolean masks (numpy boolean indexing and the renumbering it induces) -/

/-- `x[mask]` -/
def maskFilter {α} : List α → List Bool → List α
  | x :: xs, b :: bs => if b then x :: maskFilter xs bs else maskFilter xs bs
  | _, _ => []

/-- new index of old vertex `v` after masking: number of kept vertices before `v` -/
def rank : List Bool → Nat → Nat
  | _, 0 => 0
  | [], _ => 0
  | b :: bs, v+1 => (if b then 1 else 0) + rank bs v

/-- `np.sum(masks, axis=0) > 0` over `n` points -/
def orMasks (n : Nat) (ms : List (List Bool)) : List Bool :=
  (List.range n).map fun i => ms.any fun m => m.getD i false

/-- `adjacency[keep, :][:, keep]` on an edge list: keep the edges with both ends kept, renumber -/
def inducedEdges (m : List Bool) (es : List (Nat × Nat)) : List (Nat × Nat) :=
  (es.filter fun e => m.getD e.1 false && m.getD e.2 false).map fun e => (rank m e.1, rank m e.2)

/-- `PointUndirectedGraph.from_mask`: the all-true shortcut rebuilds from the same data,
otherwise `_mask_adjacency_matrix_and_points` -/
def fromMask {α} (pts : List α) (es : List (Nat × Nat)) (m : List Bool) : List α × List (Nat × Nat) :=
  if m.all id then (pts, es) else (maskFilter pts m, inducedEdges m es)

/-! ### the labelled graph -/

/-- `type`: a `TypeError` (only the translated source text of Core/C15Src.lean can produce it) -/
inductive Err | key | value | index | empty | labelling | type
  deriving DecidableEq, Repr

instance exceptDecEq {ε α} [DecidableEq ε] [DecidableEq α] : DecidableEq (Except ε α)
  | .ok a, .ok b => if h : a = b then isTrue (by rw [h]) else isFalse (by intro h'; injection h' with h'; exact h h')
  | .error a, .error b => if h : a = b then isTrue (by rw [h]) else isFalse (by intro h'; injection h' with h'; exact h h')
  | .ok _, .error _ => isFalse (by intro h; cases h)
  | .error _, .ok _ => isFalse (by intro h; cases h)

structure LGraph (α : Type) where
  pts : List α
  edges : List (Nat × Nat)
  labels : List (String × List Bool)
  deriving DecidableEq, Repr

def LGraph.names {α} (g : LGraph α) : List String := g.labels.map Prod.fst
def LGraph.n {α} (g : LGraph α) : Nat := g.pts.length

/-- `_verify_all_labels_masked`: `np.sum(masks, axis=0) == 0` nowhere -/
def coveredB (n : Nat) (labels : List (String × List Bool)) : Bool :=
  (orMasks n (labels.map Prod.snd)).all id

/-- `LabelledPointUndirectedGraph.__init__`, check by check: an empty label set, a mask whose length is not the
number of points (`np.vstack(...).shape[1] != points.shape[0]`, or `vstack` itself on ragged masks) and uncovered
points (`_verify_all_labels_masked`) each raise `ValueError`.  (The `OrderedDict` type check has no counterpart: the
model's label list *is* ordered.) -/
def construct {α} (pts : List α) (edges : List (Nat × Nat)) (labels : List (String × List Bool)) :
    Except Err (LGraph α) :=
  if labels.isEmpty then .error .value
  else if labels.any (fun p => p.2.length != pts.length) then .error .value
  else if !coveredB pts.length labels then .error .value
  else .ok { pts := pts, edges := edges, labels := labels }

/-- `d[l]` on the ordered label dict -/
def lookup : List (String × List Bool) → String → Option (List Bool)
  | [], _ => none
  | (k, v) :: rest, l => if k == l then some v else lookup rest l

/-- keys of `OrderedDict(zip(labels, …))`: first occurrence fixes the position -/
def dedup : List String → List String
  | [] => []
  | x :: xs => x :: (dedup xs).filter (· != x)

/-- `overlap = np.sum([masks[l] for l in labels], axis=0) > 0` -/
def selMask {α} (g : LGraph α) (req : List String) : List Bool :=
  orMasks g.pts.length (req.filterMap (lookup g.labels))

/-- `OrderedDict(zip(labels, [m[overlap] for m in masks_to_keep]))` -/
def restrictLabels {α} (g : LGraph α) (req : List String) (ov : List Bool) : List (String × List Bool) :=
  (dedup req).map fun l => (l, maskFilter ((lookup g.labels l).getD []) ov)

/-- `_new_group_with_only_labels(labels)`, branch for branch:
* `set(labels).difference(self.labels)` non-empty → `ValueError` (`value`);
* an empty request: `np.sum([], axis=0) > 0` is a 0-d array, `from_mask` reads `mask.shape[0]` → `IndexError`
  (`index`) — this is the refusal `without_labels` of *all* labels meets;
* no point under the requested labels → `from_mask` builds a graph with zero vertices, which the graph
  constructor refuses with `ValueError` ("at least one vertex") — kept apart as `empty`;
* otherwise `from_mask` (with its all-true shortcut) and the labelled-graph constructor (whose checks are
  proved never to fire here, `restrict_covered`). -/
def select {α} (g : LGraph α) (req : List String) : Except Err (LGraph α) :=
  if req.any (fun l => (lookup g.labels l).isNone) then .error .value else
  if req.isEmpty then .error .index else
  let ov := selMask g req
  if !ov.any id then .error .empty else
  let (pts, es) := fromMask g.pts g.edges ov
  construct pts es (restrictLabels g req ov)

/-- the `labels` argument of `with_labels` / `without_labels`: a single `str` or a list of labels -/
inductive LabelsArg
  | str (s : String)
  | list (ls : List String)
  deriving DecidableEq, Repr

/-- `if isinstance(labels, str): labels = [labels]` -/
def LabelsArg.norm : LabelsArg → List String
  | .str s => [s]
  | .list ls => ls

def withLabels {α} (g : LGraph α) (req : List String) : Except Err (LGraph α) := select g req

/-- repaired `without_labels`: `[l for l in self.labels if l not in labels]` -/
def withoutLabels {α} (g : LGraph α) (excl : List String) : Except Err (LGraph α) :=
  select g (g.names.filter fun l => !excl.contains l)

/-- `without_labels` as coded: `list(set(self.labels).difference(labels))`.  The iteration order of
a `set` of strings is a function of the interpreter's hash seed; it is the parameter `order`, of
which only `(order l).Perm l` is known. -/
def withoutLabelsCoded {α} (order : List String → List String) (g : LGraph α) (excl : List String) :
    Except Err (LGraph α) :=
  select g (order (g.names.filter fun l => !excl.contains l))

/-- `with_labels(labels)` with the documented `str`-or-list argument -/
def withLabelsA {α} (g : LGraph α) (a : LabelsArg) : Except Err (LGraph α) := withLabels g a.norm

/-- `without_labels(labels)` with the documented `str`-or-list argument: the normalisation happens *before*
the membership test `l not in labels` (on a bare `str` that test would be a substring test) -/
def withoutLabelsA {α} (g : LGraph α) (a : LabelsArg) : Except Err (LGraph α) := withoutLabels g a.norm

/-- `get_label`: `PointUndirectedGraph.from_mask(self, mask)` (points, edges) -/
def getLabel {α} (g : LGraph α) (l : String) : Except Err (List α × List (Nat × Nat)) :=
  match lookup g.labels l with
  | none => .error .key
  | some m => if !m.any id then .error .empty else .ok (fromMask g.pts g.edges m)

/-- numpy integer indexing `mask[i]`, negative indices allowed -/
def normIdx (n : Nat) (i : Int) : Option Nat :=
  if 0 ≤ i ∧ i < n then some i.toNat
  else if -(n : Int) ≤ i ∧ i < 0 then some (i + n).toNat
  else none

def normAll (n : Nat) : List Int → Option (List Nat)
  | [] => some []
  | i :: is => match normIdx n i, normAll n is with
    | some j, some js => some (j :: js)
    | _, _ => none

/-- `mask = zeros(n); mask[indices] = True` -/
def indexMask (n : Nat) (js : List Nat) : List Bool := (List.range n).map fun i => js.contains i

/-- `d[l] = m` on an ordered dict: replace in place, else append -/
def setLabel : List (String × List Bool) → String → List Bool → List (String × List Bool)
  | [], l, m => [(l, m)]
  | (k, v) :: rest, l, m => if k == l then (k, m) :: rest else (k, v) :: setLabel rest l m

/-- `add_label` as coded: no verification after the assignment -/
def addLabelCoded {α} (g : LGraph α) (l : String) (idx : List Int) : Except Err (LGraph α) :=
  match normAll g.pts.length idx with
  | none => .error .index
  | some js => .ok { g with labels := setLabel g.labels l (indexMask g.pts.length js) }

/-- repaired `add_label`: `_verify_all_labels_masked()` on the new group (as `remove_label` does) -/
def addLabel {α} (g : LGraph α) (l : String) (idx : List Int) : Except Err (LGraph α) :=
  match addLabelCoded g l idx with
  | .error e => .error e
  | .ok g' => if coveredB g'.pts.length g'.labels then .ok g' else .error .value

/-- `remove_label`: `pop` (KeyError) then `_verify_all_labels_masked` (ValueError) -/
def removeLabel {α} (g : LGraph α) (l : String) : Except Err (LGraph α) :=
  match lookup g.labels l with
  | none => .error .key
  | some _ =>
    let ls := g.labels.filter fun p => p.1 != l
    if coveredB g.pts.length ls then .ok { g with labels := ls } else .error .value

/-- `init_with_all_label`: the single label `"all"` masking every point -/
def initWithAllLabel {α} (pts : List α) (edges : List (Nat × Nat)) : Except Err (LGraph α) :=
  construct pts edges [("all", List.replicate pts.length true)]

/-- `indices_to_masks` + constructor (`init_from_indices_mapping`, what the labellers call): each label's index
list becomes a mask by numpy integer indexing (negative indices allowed, out of range → `IndexError`) -/
def masksOfIndices (n : Nat) : List (String × List Int) → Except Err (List (String × List Bool))
  | [] => .ok []
  | (l, idx) :: rest => match normAll n idx with
    | none => .error .index
    | some js => match masksOfIndices n rest with
      | .error e => .error e
      | .ok ms => .ok ((l, indexMask n js) :: ms)

def initFromIndices {α} (pts : List α) (edges : List (Nat × Nat)) (mapping : List (String × List Int)) :
    Except Err (LGraph α) :=
  match masksOfIndices pts.length mapping with
  | .error e => .error e
  | .ok ms => construct pts edges ms

/-! ### operation sequences -/

inductive Op
  | withL (req : List String)
  | withoutL (excl : List String)
  | add (l : String) (idx : List Int)
  | remove (l : String)

def step {α} (g : LGraph α) : Op → Except Err (LGraph α)
  | .withL r => withLabels g r
  | .withoutL e => withoutLabels g e
  | .add l i => addLabel g l i
  | .remove l => removeLabel g l

/-- the code as found (`order` = set iteration order, `add_label` unverified) -/
def stepCoded {α} (order : List String → List String) (g : LGraph α) : Op → Except Err (LGraph α)
  | .withL r => withLabels g r
  | .withoutL e => withoutLabelsCoded order g e
  | .add l i => addLabelCoded g l i
  | .remove l => removeLabel g l

/-- run a sequence; stops at the first raising operation -/
def run {α} (st : LGraph α → Op → Except Err (LGraph α)) : LGraph α → List Op → Except Err (LGraph α)
  | g, [] => .ok g
  | g, o :: os => match st g o with
    | .error e => .error e
    | .ok g' => run st g' os

/-! ### well-formedness and coverage as propositions -/

/-- every point carries at least one label -/
def Covered {α} (g : LGraph α) : Prop :=
  ∀ i, i < g.pts.length → ∃ p ∈ g.labels, p.2[i]? = some true

/-- masks as long as the points, distinct label names, edges between existing points -/
structure WF {α} (g : LGraph α) : Prop where
  maskLen : ∀ p ∈ g.labels, p.2.length = g.pts.length
  names : g.names.Nodup
  edgesIn : ∀ e ∈ g.edges, e.1 < g.pts.length ∧ e.2 < g.pts.length

/-! ### labellers: pure re-indexing -/

/-- table of one index-based labeller (regenerated from the live function, see Generated/C15Labellers) -/
structure Labeller where
  nExpected : Nat
  /-- output point `j` is input point `ind[j]` -/
  ind : List Nat
  /-- label → indices into the *output* points, in order -/
  labels : List (String × List Nat)
  /-- undirected edges between output points -/
  edges : List (Nat × Nat)
  deriving DecidableEq, Repr

/-- `points[ind]` -/
def gather {α} (xs : List α) (ind : List Nat) : List α := ind.filterMap (xs[·]?)

/-- `validate_input` then index: the labelled output for any input of the expected size -/
def Labeller.apply {α} (t : Labeller) (xs : List α) : Except Err (LGraph α) :=
  if xs.length != t.nExpected then .error .labelling
  else .ok { pts := gather xs t.ind, edges := t.edges,
             labels := t.labels.map fun p => (p.1, indexMask t.ind.length p.2) }

def nodupB {β} [BEq β] : List β → Bool
  | [] => true
  | x :: xs => !xs.contains x && nodupB xs

/-- the decidable obligation on a labeller table, clause by clause of the property: output points are
distinct input points (indices in range, no repetition), every output point is labelled, label indices
refer to output points, label names are distinct -/
def labellerWF (t : Labeller) : Bool :=
  t.ind.all (· < t.nExpected) && nodupB t.ind
  && (List.range t.ind.length).all (fun j => t.labels.any fun p => p.2.contains j)
  && t.labels.all (fun p => p.2.all (· < t.ind.length))
  && !t.labels.isEmpty && nodupB (t.labels.map Prod.fst)

/-- the connectivity refers to output points only (needed for the output to be a well-formed labelled
graph on which the selection operations act; not a clause of the property text) -/
def labellerEdgesWF (t : Labeller) : Bool :=
  t.edges.all (fun e => e.1 < t.ind.length && e.2 < t.ind.length)

end MenpoModel.C15
