/-
C07 — what the model takes for granted about the *entry points* of the alignment classes, as a table that
`harness/c07.py` regenerates from the live classes on every run (`Generated/C07Entries.lean`); the obligations over
it are in `GenProps/C07.lean`.

* `EntryRow`: a public alignment class, its constructor parameters with their defaults (`""` = required) and, for the
  methods every clause of the property observes, the class of the MRO that supplies them.
* `GpaLive`: what a live `GeneralizedProcrustesAnalysis(sources, allow_mirror=m)` holds: the class of its member
  transforms, their `rotation` / `allow_mirror` options, `max_iterations`, how many transforms for how many sources.
-/
namespace MenpoModel.C07

structure EntryRow where
  cls : String
  params : List (String × String)
  providers : List (String × String)
  deriving DecidableEq, Repr

structure GpaLive where
  mirrorArg : Bool
  nSources : Nat
  nTransforms : Nat
  memberClass : String
  memberRotation : Bool
  memberMirror : Bool
  maxIterations : Nat
  deriving DecidableEq, Repr

def lookupS (l : List (String × String)) (k : String) : Option String := (l.find? fun p => p.1 == k).map (·.2)
def rowOf (t : List EntryRow) (c : String) : Option EntryRow := t.find? fun r => r.cls == c
def defaultOf (t : List EntryRow) (c p : String) : Option String := (rowOf t c).bind fun r => lookupS r.params p

/-- the single-alignment classes the model covers -/
def alignmentClasses : List String :=
  ["AlignmentTranslation", "AlignmentUniformScale", "AlignmentRotation", "AlignmentSimilarity", "AlignmentAffine",
   "ThinPlateSplines", "CachedPWA", "PythonPWA"]

/-- `aligned_source` / `alignment_error` are the one definition of `Alignment` (the model's `AlignObj.alignedSource`
/ `alignmentError2`) and `set_target` the one of `Targetable`, for every class; every constructor starts with
`(source, target)` -/
def EntryRow.apiOK (r : EntryRow) : Bool :=
  lookupS r.providers "aligned_source" == some "Alignment" &&
  lookupS r.providers "alignment_error" == some "Alignment" &&
  lookupS r.providers "set_target" == some "Targetable" &&
  r.params.take 2 == [("source", ""), ("target", "")]

/-- every further constructor parameter is optional (so `Cls(source, target)` is the call the model describes) -/
def EntryRow.restOptional (r : EntryRow) : Bool := (r.params.drop 2).all fun p => p.2 != ""

def EntriesWF (t : List EntryRow) : Bool :=
  (alignmentClasses.all fun c => match rowOf t c with
    | some r => r.apiOK && r.restOptional
    | none => false) &&
  -- the defaults the model's `simAlign`, `rotFit`, `tpsFit`, `gpa` are written for
  defaultOf t "AlignmentSimilarity" "rotation" == some "True" &&
  defaultOf t "AlignmentSimilarity" "allow_mirror" == some "False" &&
  defaultOf t "AlignmentRotation" "allow_mirror" == some "False" &&
  defaultOf t "ThinPlateSplines" "kernel" == some "None" &&
  defaultOf t "ThinPlateSplines" "min_singular_val" == some "0.0001" &&
  defaultOf t "GeneralizedProcrustesAnalysis" "target" == some "None" &&
  defaultOf t "GeneralizedProcrustesAnalysis" "allow_mirror" == some "False" &&
  ((rowOf t "GeneralizedProcrustesAnalysis").map fun r => r.params.take 1) == some [("sources", "")]

/-- a live GPA is what `gpa` models: one `AlignmentSimilarity` with rotation per source, mirroring as asked,
`max_iterations = 100` (the `maxIter` the driver passes) -/
def GpaLive.ok (g : GpaLive) : Bool :=
  g.nTransforms == g.nSources && g.memberClass == "AlignmentSimilarity" && g.memberRotation &&
  g.memberMirror == g.mirrorArg && g.maxIterations == 100

/-- storage of the state arrays of one alignment class after a history: the object is built on a first target held
in dtype `first` (`i8` whole-pixel, `f4`, `f8`), re-aimed with `set_target` at a target held in dtype `second`, and every
ndarray it holds (`attr`) is listed with its dtype next to the dtype the same attribute has in an object built directly on
the second target (`-` = the attribute is missing on that side) -/
structure DtypeRow where
  cls : String
  first : String
  second : String
  attrs : List (String × String × String)
  deriving DecidableEq, Repr

/-- no array of the re-aimed object is stored differently from the freshly built one (nothing allocated for the first
target decides how the second is stored; no attribute appears or disappears with the history) -/
def DtypeRow.ok (r : DtypeRow) : Bool := r.attrs.all fun a => a.2.1 == a.2.2 && a.2.1 != "-"

/-- every single-alignment class is measured for all nine (first, second) dtype pairs -/
def DtypeTableOK (t : List DtypeRow) : Bool :=
  t.all DtypeRow.ok &&
  alignmentClasses.all fun c => (t.filter fun r => r.cls == c).length == 9 &&
    (t.filter fun r => r.cls == c).all fun r => !r.attrs.isEmpty

end MenpoModel.C07
