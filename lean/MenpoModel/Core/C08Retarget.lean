/-
C08 — retargeting an alignment equals rebuilding it, whatever happened before.
Core Lean only (no Mathlib).

Transcribed from
  menpo/base.py                              Targetable.set_target / _verify_target
  menpo/transform/base/alignment.py          Alignment.__init__ / _target_setter / _new_target_from_state
  menpo/transform/homogeneous/{affine,similarity,rotation,translation,scale}.py
                                             the five Alignment* constructors and `_sync_state_from_target`s
  menpo/transform/homogeneous/base.py        HomogFamilyAlignment.copy
  menpo/transform/thinplatesplines.py        ThinPlateSplines.__init__ / _build_coefficients
  menpo/transform/piecewiseaffine/base.py    AbstractPWA.__init__ / _rebuild_target_vectors
  menpo/transform/groupalign/procrustes.py   GeneralizedProcrustesAnalysis

The fits themselves (centroid difference, norm ratio, Kabsch rotation, least-squares affine,
Procrustes similarity, TPS coefficient solve, PWA target vectors) are the subject of C07.  Here they
are *abstract functions* (`Ext`): the property is that retargeting equals rebuilding for whatever the
fit is.  What is transcribed exactly is (a) which remembered options each `_sync_state_from_target`
really passes to its fit, (b) which part of the homogeneous matrix it overwrites in place, (c) the
verification of the new target, (d) what the constructors leave in `.target`.

`Tree` says which source tree is modelled: `coded` is the tree as found (AlignmentSimilarity does not
remember `rotation`; AlignmentAffine / AlignmentRotation leave the aligned source in `.target`),
`fixed` the tree after the two proposed repairs.
-/

namespace MenpoModel.C08

/-! ### homogeneous matrices: total functions on indices, entries `i, j ≤ d` are the `(d+1)×(d+1)` array -/

abbrev Mat := Nat → Nat → Rat

/-- `np.eye(d + 1)` -/
def eye : Mat := fun i j => if i = j then 1 else 0

/-- `h[:-1, -1] = t` -/
def setLastCol (d : Nat) (t : Nat → Rat) (h : Mat) : Mat :=
  fun i j => if j = d ∧ i < d then t i else h i j

/-- `h[:-1, :-1] = r` -/
def setBlock (d : Nat) (r : Mat) (h : Mat) : Mat :=
  fun i j => if i < d ∧ j < d then r i j else h i j

/-- `np.fill_diagonal(h, s)` on a `(d+1)×(d+1)` array -/
def fillDiag (d : Nat) (s : Rat) (h : Mat) : Mat :=
  fun i j => if i = j ∧ i ≤ d then s else h i j

/-- `h[-1, -1] = 1` -/
def setCorner (d : Nat) (h : Mat) : Mat :=
  fun i j => if i = d ∧ j = d then 1 else h i j

/-! ### classes, options, trees -/

inductive Cls where
  | affine | similarity | rotation | translation | uniformScale | tps | pwa
  deriving DecidableEq, Repr

/-- constructor options (those a class does not take are ignored by it) -/
structure Opts where
  rotation : Bool := true
  allowMirror : Bool := false
  kernel : Nat := 0
  minSV : Rat := 1 / 10000
  deriving DecidableEq

/-- which source tree -/
structure Tree where
  /-- AlignmentSimilarity stores `self.rotation` and passes it on retarget (finding 6) -/
  remembersRotation : Bool
  /-- AlignmentAffine / AlignmentRotation end their constructor with the requested target (finding 22) -/
  ctorKeepsTarget : Bool
  deriving DecidableEq

def coded : Tree := ⟨false, false⟩
def fixed : Tree := ⟨true, true⟩

inductive Err where
  | dims      -- ValueError: dimensionality differs
  | points    -- ValueError: number of points differs
  | not2d     -- ValueError: TPS / PWA need 2-D data
  | not2or3d  -- ValueError: Translation / UniformScale are 2-D or 3-D
  deriving DecidableEq, Repr

/-- the numerical kernels and the array-library facts, abstract.  `A` is the type of the opaque arrays
the non-homogeneous classes keep (TPS `l` and `coefficients`, PWA `ti/tij/tik`). -/
structure Ext (Pts A : Type) where
  nPoints : Pts → Nat
  nDims : Pts → Nat
  /-- `target.centre() - source.centre()` -/
  translationOf : Pts → Pts → Nat → Rat
  /-- `target.norm() / source.norm()` -/
  scaleOf : Pts → Pts → Rat
  /-- `optimal_rotation_matrix(source, target, allow_mirror)` -/
  rotationOf : Bool → Pts → Pts → Mat
  /-- `AlignmentAffine._build_alignment_h_matrix(source, target)` -/
  affineOf : Pts → Pts → Mat
  /-- `procrustes_alignment(source, target, rotation, allow_mirror).h_matrix` -/
  procrustes : Bool → Bool → Pts → Pts → Mat
  /-- the TPS system matrix `l`, built once from the source and the kernel -/
  tpsL : Nat → Pts → A
  /-- `_build_coefficients`: from `l`, `min_singular_val` and the target -/
  tpsCoef : A → Rat → Pts → A
  /-- `_rebuild_target_vectors`: `ti, tij, tik` from the source triangulation and the target -/
  pwaVectors : Pts → Pts → A
  /-- `Homogeneous.apply` on a point set (only used for `aligned_source`) -/
  applyHom : Mat → Pts → Pts
  /-- TPS / PWA `apply` given the kept arrays and the source -/
  applyTps : A → A → Pts → Pts → Pts
  applyPwa : A → Pts → Pts → Pts

/-- the state a fitted alignment keeps besides source, target and options -/
inductive State (A : Type) where
  | hom (h : Mat)
  | tps (l coef : A)
  | pwa (tv : A)

/-- an alignment object: exactly the instance attributes -/
structure Obj (Pts A : Type) where
  cls : Cls
  /-- `self.rotation` (AlignmentSimilarity on the repaired tree only) -/
  rotation : Option Bool
  /-- `self.allow_mirror` (AlignmentSimilarity, AlignmentRotation) -/
  allowMirror : Option Bool
  /-- `self.kernel`, `self.min_singular_val` (ThinPlateSplines) -/
  kernel : Option Nat
  minSV : Option Rat
  source : Pts
  target : Pts
  state : State A

variable {Pts A : Type}

/-- `self.apply(self.source)` -/
def alignedSource (e : Ext Pts A) (o : Obj Pts A) : Pts :=
  match o.state with
  | .hom h => e.applyHom h o.source
  | .tps l c => e.applyTps l c o.source o.source
  | .pwa tv => e.applyPwa tv o.source o.source

/-! ### `_sync_state_from_target`, class by class -/

def sync (e : Ext Pts A) (o : Obj Pts A) : Obj Pts A :=
  let d := e.nDims o.source
  match o.cls, o.state with
  | .affine, .hom _ =>
    -- optimal_h = _build_alignment_h_matrix(source, target); Affine._set_h_matrix(self, optimal_h)
    { o with state := .hom (e.affineOf o.source o.target) }
  | .similarity, .hom _ =>
    -- procrustes_alignment(self.source, self.target, [rotation=self.rotation,] allow_mirror=self.allow_mirror)
    -- an attribute that was never stored cannot be passed: the callee's default (True) applies
    { o with state := .hom (e.procrustes (o.rotation.getD true) (o.allowMirror.getD false) o.source o.target) }
  | .rotation, .hom h =>
    -- Rotation.set_rotation_matrix(self, r): self._h_matrix[:-1, :-1] = r   (in place)
    { o with state := .hom (setBlock d (e.rotationOf (o.allowMirror.getD false) o.source o.target) h) }
  | .translation, .hom h =>
    -- self.h_matrix[:-1, -1] = target.centre() - source.centre()   (in place)
    { o with state := .hom (setLastCol d (e.translationOf o.source o.target) h) }
  | .uniformScale, .hom h =>
    -- np.fill_diagonal(self.h_matrix, new_scale); self.h_matrix[-1, -1] = 1   (in place)
    { o with state := .hom (setCorner d (fillDiag d (e.scaleOf o.source o.target) h)) }
  | .tps, .tps l _ =>
    -- _build_coefficients(): uses the kept l and self.min_singular_val
    { o with state := .tps l (e.tpsCoef l (o.minSV.getD (1 / 10000)) o.target) }
  | .pwa, .pwa _ =>
    { o with state := .pwa (e.pwaVectors o.source o.target) }
  | _, _ => o

/-! ### `Targetable.set_target` -/

/-- `_verify_target` -/
def verifyTarget (e : Ext Pts A) (o : Obj Pts A) (t : Pts) : Except Err Unit :=
  if e.nDims t ≠ e.nDims o.target then .error .dims
  else if e.nPoints t ≠ e.nPoints o.target then .error .points
  else .ok ()

/-- `set_target`: verify, set, sync.  An error is raised before anything is written. -/
def setTarget (e : Ext Pts A) (o : Obj Pts A) (t : Pts) : Except Err (Obj Pts A) :=
  match verifyTarget e o t with
  | .error err => .error err
  | .ok () => .ok (sync e { o with target := t })

/-- one call as the caller sees it: a raising call leaves the object as it was -/
def step (e : Ext Pts A) (o : Obj Pts A) (t : Pts) : Obj Pts A :=
  match setTarget e o t with
  | .ok o' => o'
  | .error _ => o

/-- a history of `set_target` calls -/
def history (e : Ext Pts A) (o : Obj Pts A) (ts : List Pts) : Obj Pts A := ts.foldl (step e) o

/-! ### the constructors -/

/-- `Alignment._verify_source_and_target` -/
def verifySourceTarget (e : Ext Pts A) (s t : Pts) : Except Err Unit :=
  if e.nDims s ≠ e.nDims t then .error .dims
  else if e.nPoints s ≠ e.nPoints t then .error .points
  else .ok ()

def buildCore (tr : Tree) (e : Ext Pts A) (c : Cls) (op : Opts) (s t : Pts) : Except Err (Obj Pts A) :=
  let d := e.nDims s
  let blank (st : State A) : Obj Pts A :=
    { cls := c, rotation := none, allowMirror := none, kernel := none, minSV := none,
      source := s, target := t, state := st }
  match c with
  | .affine =>
    -- Affine.__init__ → Homogeneous.__init__ → AlignmentAffine._set_h_matrix → _sync_target_from_state
    let h := e.affineOf s t
    let o := blank (.hom h)
    .ok (if tr.ctorKeepsTarget then o else { o with target := e.applyHom h s })
  | .similarity =>
    let o := blank (.hom (e.procrustes op.rotation op.allowMirror s t))
    .ok { o with rotation := if tr.remembersRotation then some op.rotation else none,
                 allowMirror := some op.allowMirror }
  | .rotation =>
    -- Rotation.__init__: eye, then AlignmentRotation.set_rotation_matrix → _sync_target_from_state
    let h := setBlock d (e.rotationOf op.allowMirror s t) eye
    let o := { blank (.hom h) with allowMirror := some op.allowMirror }
    .ok (if tr.ctorKeepsTarget then o else { o with target := e.applyHom h s })
  | .translation =>
    if d ≠ 2 ∧ d ≠ 3 then .error .not2or3d
    else .ok (blank (.hom (setLastCol d (e.translationOf s t) eye)))
  | .uniformScale =>
    if d ≠ 2 ∧ d ≠ 3 then .error .not2or3d
    else .ok (blank (.hom (setCorner d (fillDiag d (e.scaleOf s t) eye))))
  | .tps =>
    if d ≠ 2 then .error .not2d
    else
      let l := e.tpsL op.kernel s
      .ok { blank (.tps l (e.tpsCoef l op.minSV t)) with kernel := some op.kernel, minSV := some op.minSV }
  | .pwa =>
    if d ≠ 2 then .error .not2d
    else .ok (blank (.pwa (e.pwaVectors s t)))

/-- `Cls(source, target, **options)` -/
def build (tr : Tree) (e : Ext Pts A) (c : Cls) (op : Opts) (s t : Pts) : Except Err (Obj Pts A) :=
  match verifySourceTarget e s t with
  | .error err => .error err
  | .ok () => buildCore tr e c op s t

/-- the target the object ends up aligned to: the last *accepted* target of the history -/
def lastAccepted (e : Ext Pts A) (t0 : Pts) : List Pts → Pts
  | [] => t0
  | t :: ts =>
    if e.nDims t = e.nDims t0 ∧ e.nPoints t = e.nPoints t0 then lastAccepted e t ts
    else lastAccepted e t0 ts

/-! ### parameter edits of the homogeneous alignments (`from_vector_inplace`, `set_rotation_matrix`,
`compose_before_inplace`, `compose_after_inplace`, `compose_after_from_vector_inplace`)

None of them is `set_target`; they are modelled because the property quantifies over *whatever happened
before*: what they leave behind (a matrix that is no fit at all, a `.target` that is the aligned source, a
re-bound or partially overwritten array) is the state the next `set_target` starts from. -/

/-- `np.dot(a, b)` on `(d+1)×(d+1)` arrays -/
def mulMat (d : Nat) (a b : Mat) : Mat :=
  fun i j => if i ≤ d ∧ j ≤ d then ((List.range (d + 1)).map fun k => a i k * b k j).sum else eye i j

inductive EditKind where
  /-- `_from_vector_inplace(p)` (and `AlignmentRotation.set_rotation_matrix`): `m` is the matrix the
  parameter vector stands for -/
  | fromVector
  /-- `compose_before_inplace(t)`: `m = t.h_matrix`, the new matrix is `np.dot(m, self.h_matrix)` -/
  | composeBefore
  /-- `compose_after_inplace(t)`: the new matrix is `np.dot(self.h_matrix, m)` -/
  | composeAfter
  deriving DecidableEq, Repr

/-- `Targetable._sync_target_from_state` of an alignment: the new target is the aligned source (a new
point set); `_verify_target` runs first and its exception leaves the already written matrix in place -/
def syncTarget (e : Ext Pts A) (o : Obj Pts A) : Obj Pts A :=
  let t := alignedSource e o
  match verifyTarget e o t with
  | .ok () => { o with target := t }
  | .error _ => o

/-- one parameter edit, class by class.
* `AlignmentAffine` overrides `_set_h_matrix`: every way of setting the matrix re-syncs the target;
* `AlignmentSimilarity._from_vector_inplace` re-binds the matrix and re-syncs the target; its compositions go
  through `Affine._set_h_matrix` and leave the target alone;
* `AlignmentRotation.set_rotation_matrix` / `AlignmentTranslation` / `AlignmentUniformScale`
  `._from_vector_inplace` overwrite *their part* of the existing array and re-sync the target; their
  compositions re-bind the matrix to the product and leave the target alone;
* `ThinPlateSplines` / `PiecewiseAffine` have no such methods. -/
def vEdit (e : Ext Pts A) (o : Obj Pts A) (k : EditKind) (m : Mat) : Obj Pts A :=
  let d := e.nDims o.source
  match o.state with
  | .hom h =>
    let prod : Mat := match k with
      | .composeBefore => mulMat d m h
      | .composeAfter => mulMat d h m
      | .fromVector => m
    match o.cls, k with
    | .affine, _ => syncTarget e { o with state := .hom prod }
    | .similarity, .fromVector => syncTarget e { o with state := .hom m }
    | .rotation, .fromVector => syncTarget e { o with state := .hom (setBlock d m h) }
    | .translation, .fromVector => syncTarget e { o with state := .hom (setLastCol d (fun i => m i d) h) }
    | .uniformScale, .fromVector => syncTarget e { o with state := .hom (setCorner d (fillDiag d (m 0 0) h)) }
    | .tps, _ => o
    | .pwa, _ => o
    | _, _ => { o with state := .hom prod }
  | _ => o

/-- `pseudoinverse()` of an alignment.  Homogeneous family (`HomogFamilyAlignment.pseudoinverse`): a copy whose
matrix is re-bound to the inverse (`inv`, abstract) and whose source and target are swapped.  Thin plate splines:
`ThinPlateSplines(self.target, self.source, kernel=type(self.kernel)(self.target.points),
min_singular_val=self.min_singular_val)` — a fresh construction in the other direction.  (Piecewise affine builds the
new source on the *old* triangle list — not the triangulation a fresh construction from a point cloud would use —
and is left out.) -/
def pinv (e : Ext Pts A) (inv : Mat → Mat) (o : Obj Pts A) : Obj Pts A :=
  match o.cls, o.state with
  | .tps, .tps _ _ =>
    let l := e.tpsL (o.kernel.getD 0) o.target
    { o with source := o.target, target := o.source,
             state := .tps l (e.tpsCoef l (o.minSV.getD (1 / 10000)) o.source) }
  | .pwa, _ => o
  | .tps, _ => o
  | _, .hom h => { o with source := o.target, target := o.source, state := .hom (inv h) }
  | _, _ => o

/-- what may happen to one alignment object between two observations: a `set_target`, a parameter edit, or
the caller overwriting — in place, so the shape stays — the coordinates of the very point set the
alignment holds as its target (`t.points[...] = v`; the alignment keeps a *reference* to `t`) -/
inductive VOp (Pts : Type) where
  | set (t : Pts)
  | edit (k : EditKind) (m : Mat)
  | targetMoved (v : Pts)

/-- an in-place write into an ndarray cannot change its shape: a value of another shape is not written -/
def moveTarget (e : Ext Pts A) (o : Obj Pts A) (v : Pts) : Obj Pts A :=
  if e.nDims v = e.nDims o.target ∧ e.nPoints v = e.nPoints o.target then { o with target := v } else o

def vApply (e : Ext Pts A) (o : Obj Pts A) : VOp Pts → Obj Pts A
  | .set t => step e o t
  | .edit k m => vEdit e o k m
  | .targetMoved v => moveTarget e o v

def vHistory (e : Ext Pts A) (o : Obj Pts A) (ops : List (VOp Pts)) : Obj Pts A := ops.foldl (vApply e) o

/-! ### generalized Procrustes analysis -/

/-- what GPA computes besides alignments, abstract -/
structure GpaExt (Pts : Type) where
  /-- `sum(s.points) / n_sources` -/
  meanOf : List Pts → Pts
  /-- mean of the aligned sources, rescaled about its centre to the size of the initial target -/
  newTarget : Pts → List Pts → Pts
  /-- `np.linalg.norm(target - new_tgt) < 1e-6` -/
  closeEnough : Pts → Pts → Bool

structure Gpa (Pts A : Type) where
  transforms : List (Obj Pts A)
  target : Pts
  nIterations : Nat
  converged : Bool

/-- `for t in self.transforms: t.set_target(new_tgt)` (an exception propagates) -/
def setAll (e : Ext Pts A) (t : Pts) : List (Obj Pts A) → Except Err (List (Obj Pts A))
  | [] => .ok []
  | o :: os =>
    match setTarget e o t with
    | .error err => .error err
    | .ok o' => match setAll e t os with
      | .error err => .error err
      | .ok os' => .ok (o' :: os')

/-- `_recursive_procrustes`; `fuel = max_iterations + 1 - n_iterations`, so `fuel = 0` is the code's own
`n_iterations > max_iterations` exit -/
def recProcrustes (e : Ext Pts A) (g : GpaExt Pts) (initial : Pts) :
    Nat → Gpa Pts A → Except Err (Gpa Pts A)
  | 0, st => .ok { st with converged := false }
  | fuel + 1, st =>
    let newTgt := g.newTarget initial (st.transforms.map (alignedSource e))
    if g.closeEnough st.target newTgt then .ok { st with converged := true }
    else match setAll e newTgt st.transforms with
      | .error err => .error err
      | .ok ts => recProcrustes e g initial fuel
          { transforms := ts, target := newTgt, nIterations := st.nIterations + 1, converged := false }

def buildAll (tr : Tree) (e : Ext Pts A) (op : Opts) (t : Pts) : List Pts → Except Err (List (Obj Pts A))
  | [] => .ok []
  | s :: ss =>
    match build tr e .similarity op s t with
    | .error err => .error err
    | .ok o => match buildAll tr e op t ss with
      | .error err => .error err
      | .ok os => .ok (o :: os)

/-- `GeneralizedProcrustesAnalysis(sources, target, allow_mirror)`; `maxIter` is `max_iterations` (100) -/
def gpa (tr : Tree) (e : Ext Pts A) (g : GpaExt Pts) (maxIter : Nat) (sources : List Pts)
    (target : Option Pts) (allowMirror : Bool) : Except Err (Gpa Pts A) :=
  let t0 := match target with
    | some t => t
    | none => g.meanOf sources
  match buildAll tr e { rotation := true, allowMirror := allowMirror } t0 sources with
  | .error err => .error err
  | .ok ts =>
    match recProcrustes e g t0 maxIter { transforms := ts, target := t0, nIterations := 1, converged := false } with
    | .error err => .error err
    | .ok r => match target with
      | some t => .ok { r with target := t }   -- `if target is not None: self.target = initial_target`
      | none => .ok r

/-- `mean_aligned_shape()`: as coded, the mean of the transforms' **targets** -/
def meanAlignedShape (g : GpaExt Pts) (r : Gpa Pts A) : Pts := g.meanOf (r.transforms.map fun o => o.target)

/-- `alignment_error()` of every transform (`dist` = Frobenius norm of the difference, abstract);
`mean_alignment_error()` is their sum over `n_sources` -/
def alignmentErrors (e : Ext Pts A) (dist : Pts → Pts → Rat) (r : Gpa Pts A) : List Rat :=
  r.transforms.map fun o => dist o.target (alignedSource e o)

/-- one round computed **with freshly constructed alignments only** -/
def freshRound (tr : Tree) (e : Ext Pts A) (g : GpaExt Pts) (op : Opts) (initial : Pts) (sources : List Pts)
    (t : Pts) : Except Err Pts :=
  match buildAll tr e op t sources with
  | .error err => .error err
  | .ok ts => .ok (g.newTarget initial (ts.map (alignedSource e)))

/-- the whole iteration with fresh alignments only (no object is ever retargeted): reported target,
`n_iterations`, `converged`.  This is what `harness/c08.py: ref_gpa` runs. -/
def refGpa (tr : Tree) (e : Ext Pts A) (g : GpaExt Pts) (op : Opts) (initial : Pts) (sources : List Pts) :
    Nat → Pts → Nat → Except Err (Pts × Nat × Bool)
  | 0, t, n => .ok (t, n, false)
  | fuel + 1, t, n =>
    match freshRound tr e g op initial sources t with
    | .error err => .error err
    | .ok t' =>
      if g.closeEnough t t' then .ok (t, n, true)
      else match buildAll tr e op t' sources with
        | .error err => .error err
        | .ok _ => refGpa tr e g op initial sources fuel t' (n + 1)

end MenpoModel.C08
