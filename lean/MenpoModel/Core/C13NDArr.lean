/-
C13 — flat C-order n-dimensional arrays (the part of numpy the crop / patch code relies on).
Core Lean only.  An array is a shape and a flat list in C (row-major) order; every numpy
operation the anchored code performs (fancy construction over an index grid, reshape,
transpose, basic-slice assignment) is written as `ofFn shape f` over the C-ordered index
grid, which is how numpy defines them.
-/

namespace MenpoModel.C13

/-- number of elements of a shape -/
def sz : List Nat → Nat
  | [] => 1
  | n :: s => n * sz s

/-- all multi-indices of a shape in C order (`np.ndindex` / `indices_for_image_of_shape`) -/
def indices : List Nat → List (List Nat)
  | [] => [[]]
  | n :: s => (List.range n).flatMap fun i => (indices s).map (i :: ·)

/-- flat C-order offset of a multi-index -/
def offset : List Nat → List Nat → Nat
  | _ :: s, i :: p => i * sz s + offset s p
  | _, _ => 0

/-- the multi-index addresses an element of the shape -/
def inRange : List Nat → List Nat → Bool
  | [], [] => true
  | n :: s, i :: p => decide (i < n) && inRange s p
  | _, _ => false

structure NDArr (α : Type) where
  shape : List Nat
  data : List α
deriving Repr, DecidableEq

namespace NDArr
variable {α : Type}

/-- `a[idx]` for a full multi-index; `none` = IndexError -/
def get? (a : NDArr α) (idx : List Nat) : Option α :=
  if inRange a.shape idx then a.data[offset a.shape idx]? else none

def getD (a : NDArr α) (idx : List Nat) (d : α) : α := (a.get? idx).getD d

/-- well-formed: the buffer has exactly `prod shape` elements -/
def WF (a : NDArr α) : Prop := a.data.length = sz a.shape

end NDArr

/-- array whose element at multi-index `p` is `f p` -/
def ofFn {α : Type} (shape : List Nat) (f : List Nat → α) : NDArr α :=
  ⟨shape, (indices shape).map f⟩

/-- `np.full(shape, v)` -/
def full {α : Type} (shape : List Nat) (v : α) : NDArr α := ofFn shape fun _ => v

/-- `a.reshape(shape)` (C order): same buffer, new shape; `none` = ValueError (size mismatch) -/
def reshape {α : Type} (a : NDArr α) (shape : List Nat) : Option (NDArr α) :=
  if a.data.length = sz shape then some ⟨shape, a.data⟩ else none

end MenpoModel.C13
