/-
C12 — executable model of menpo.model.gmrf (Mathlib-free, exact rationals).

Transcribed from /repo/menpo/model/gmrf.py, branch for branch:

* `np.mean(data, axis=0)`                                   → `meanVec`
* edge data (`concatenation` / `subtraction`), `np.cov(…, rowvar=0, bias=…)` → `edgeData`, `covMat`
* `_covariance_matrix_inverse` (`n_components=None`)         → `invChecked` (Gauss–Jordan in ℚ, the
  product `C·B = 1` is *checked* by the model, so no theorem relies on the elimination being right);
  the truncated-SVD inverse leaves ℚ and is a contract parameter (blocks handed in)
* `_create_sparse_precision`: the four triplets per edge in the coded order, `rows.argsort()`,
  the `indptr` loop with `np.where(rows == i)`, `bsr_matrix((blocks, columns, indptr))`
                                                             → `edgeTrips`, `sortByRow`, `indptrLoop`, `assemble`,
                                                               `bsrBlockEnt` (denotation: duplicates summed)
* `_create_dense_precision`: `+=` on the diagonal blocks, `=` on the off-diagonal blocks, in the
  coded order (which differs between the two modes)           → `denseStep`, `dense`
* `_create_sparse_diagonal_precision`, `_create_dense_diagonal_precision` → `diagTrips`, `denseDiag`
* `GMRFVectorModel._mahalanobis_distance`: sparse `diag(S·(P·Sᵀ))`, dense `einsum('ij,ij->i', S·P, S)`
                                                             → `mahalSparse`, `mahalDense`

* `_covariance_matrix_inverse` (`n_components` given): the coded `s[:, :n]·diag(1/v[:n])·d[:n, :]` with
  numpy's SVD as a contract parameter → `svdTrunc`, `covInverse`; the truncated pseudo-inverse from a
  rational eigen-decomposition that the model verifies itself → `specTrunc`, `checkSpec`,
  `truncChecked`, `buildTrunc` (Lemmas/C12Trunc.lean proves the two equal under the contract)
* what the dense scatter leaves on an arbitrary digraph (last writer on off-diagonal blocks) → `denseSpec`
* `GMRFModel` (object level): `as_matrix`, `from_vector`, `mean()`, list / single instance queries
                                                             → `asVector`, `asMatrix`, `fromVector`, `buildObj`,
                                                               `meanObj`, `queryMatrix`
* `GMRFVectorModel._data_to_matrix` (`n_samples`)            → `dataToMatrix`, `buildFrom`

The routines themselves are TRANSLATED from the live source text on every run (`harness/trans_c12.py` →
`Generated/C12Src.lean`) and proved equal to the statement-for-statement definitions of `Core/C12Src.lean`
(`GenProps/C12Src.lean`), which `Lemmas/C12Src*.lean` prove equal to the definitions of this file.

In-place slice assignment is value passing: an update returns the new table.
-/

namespace MenpoModel.C12

abbrev Mat := List (List Rat)

/-- entry with the out-of-range default `0` -/
def ent (M : Mat) (i j : Nat) : Rat := (M.getD i []).getD j 0

/-- `r × c` table of `f` -/
def tab (r c : Nat) (f : Nat → Nat → Rat) : Mat :=
  (List.range r).map fun a => (List.range c).map fun b => f a b

/-- `Σ_{i<n} f i` -/
def sumTo : Nat → (Nat → Rat) → Rat
  | 0, _ => 0
  | n + 1, f => sumTo n f + f n

/-! ### mean, edge data, covariance -/

/-- `np.mean(X, axis=0)` of an `N × n` data matrix -/
def meanVec (X : Mat) (N n : Nat) : List Rat :=
  (List.range n).map fun j => sumTo N (fun i => ent X i j) / (N : Rat)

inductive Mode | concat | sub
  deriving DecidableEq, Repr

/-- size of the per-edge feature vector -/
def Mode.dim : Mode → Nat → Nat
  | .concat, k => 2 * k
  | .sub, k => k

/-- the feature vector of edge `(v1, v2)` read off a full vector `x` -/
def edgeVec (m : Mode) (k : Nat) (e : Nat × Nat) (x : Nat → Rat) : Nat → Rat :=
  match m with
  | .concat => fun p => if p < k then x (e.1 * k + p) else x (e.2 * k + (p - k))
  | .sub => fun p => x (e.1 * k + p) - x (e.2 * k + p)

/-- `X[:, v1 block ++ v2 block]` resp. `X[:, v1 block] - X[:, v2 block]` -/
def edgeData (m : Mode) (k : Nat) (X : Mat) (N : Nat) (e : Nat × Nat) : Mat :=
  tab N (m.dim k) fun i p => edgeVec m k e (fun I => ent X i I) p

/-- `X[:, v block]` -/
def vertexData (k : Nat) (X : Mat) (N : Nat) (v : Nat) : Mat :=
  tab N k fun i p => ent X i (v * k + p)

/-- `np.cov(D, rowvar=0, bias=bias)` of an `N × d` matrix: normalised by `N - 1` (bias 0) or `N` (bias 1) -/
def covMat (D : Mat) (N d : Nat) (bias : Bool) : Mat :=
  let mu := fun p => sumTo N (fun i => ent D i p) / (N : Rat)
  let den : Rat := if bias then (N : Rat) else (N : Rat) - 1
  tab d d fun p q => sumTo N (fun i => (ent D i p - mu p) * (ent D i q - mu q)) / den

/-! ### exact inverse (Gauss–Jordan over ℚ), checked -/

def rowScale (c : Rat) (r : List Rat) : List Rat := r.map (c * ·)
def rowSubMul (r : List Rat) (c : Rat) (p : List Rat) : List Rat := List.zipWith (fun a b => a - c * b) r p

/-- index of the first row at or below `c` whose entry in column `c` is non-zero -/
def findPivot (A : Mat) (c : Nat) : Nat → Nat → Option Nat
  | 0, _ => none
  | fuel + 1, r => if (A.getD r []).getD c 0 ≠ 0 then some r else findPivot A c fuel (r + 1)

def swapRows (A : Mat) (i j : Nat) : Mat :=
  let ri := A.getD i []
  let rj := A.getD j []
  (A.set i rj).set j ri

/-- one elimination column on the augmented matrix -/
def gjStep (d : Nat) (A : Option Mat) (c : Nat) : Option Mat :=
  match A with
  | none => none
  | some A =>
    match findPivot A c (d - c) c with
    | none => none
    | some r =>
      let A := swapRows A c r
      let prow := A.getD c []
      let piv := prow.getD c 0
      let prow := rowScale (1 / piv) prow
      some ((List.range d).map fun i =>
        if i = c then prow else
          let row := A.getD i []
          rowSubMul row (row.getD c 0) prow)

def identity (d : Nat) : Mat := tab d d fun i j => if i = j then 1 else 0

def gaussJordan (C : Mat) (d : Nat) : Option Mat :=
  let aug : Mat := (List.range d).map fun i =>
    ((List.range d).map fun j => ent C i j) ++ ((List.range d).map fun j => if i = j then (1 : Rat) else 0)
  match (List.range d).foldl (gjStep d) (some aug) with
  | none => none
  | some A => some (A.map fun row => row.drop d)

def matMul (d : Nat) (A B : Mat) : Mat := tab d d fun i j => sumTo d fun l => ent A i l * ent B l j

/-- `C·B = 1` decided entry by entry -/
def checkInv (C B : Mat) (d : Nat) : Bool :=
  (List.range d).all fun i => (List.range d).all fun j =>
    decide (sumTo d (fun l => ent C i l * ent B l j) = if i = j then 1 else 0)

/-- the inverse, returned only when the model itself has verified `C·B = 1` -/
def invChecked (C : Mat) (d : Nat) : Option Mat :=
  match gaussJordan C d with
  | none => none
  | some B => if checkInv C B d then some (tab d d (ent B)) else none

/-! ### triplets of `_create_sparse_precision` -/

structure Trip where
  row : Nat
  col : Nat
  blk : Mat

/-- the `k × k` slice `B[r0:r0+k, c0:c0+k]` -/
def blkOf (B : Mat) (r0 c0 k : Nat) : Mat := tab k k fun a b => ent B (r0 + a) (c0 + b)
/-- `-B` for a `k × k` block -/
def negBlk (B : Mat) (k : Nat) : Mat := tab k k fun a b => - ent B a b

/-- the four `(row, column, block)` triplets stored for one edge, in the coded order -/
def edgeTrips (m : Mode) (k : Nat) (e : Nat × Nat) (B : Mat) : List Trip :=
  match m with
  | .concat =>
    [⟨e.1, e.1, blkOf B 0 0 k⟩, ⟨e.2, e.2, blkOf B k k k⟩, ⟨e.1, e.2, blkOf B 0 k k⟩, ⟨e.2, e.1, blkOf B k 0 k⟩]
  | .sub =>
    [⟨e.1, e.1, blkOf B 0 0 k⟩, ⟨e.2, e.2, blkOf B 0 0 k⟩, ⟨e.1, e.2, negBlk B k⟩, ⟨e.2, e.1, negBlk B k⟩]

def allTrips (m : Mode) (k : Nat) (es : List (Nat × Nat)) (Bs : List Mat) : List Trip :=
  (List.zipWith (edgeTrips m k) es Bs).flatten

/-- triplets of `_create_sparse_diagonal_precision`: `(v, v, B_v)` for `v = v0, v0+1, …` -/
def diagTrips (k : Nat) : Nat → List Mat → List Trip
  | _, [] => []
  | v, B :: Bs => ⟨v, v, blkOf B 0 0 k⟩ :: diagTrips k (v + 1) Bs

/-- the sum of the embedded triplets: block `(bi, bj)`, entry `(a, c)` -/
def tripsEnt (ts : List Trip) (bi bj a c : Nat) : Rat :=
  (ts.map fun t => if t.row = bi ∧ t.col = bj then ent t.blk a c else 0).sum

/-! ### block-sparse-row assembly -/

/-- `rows.argsort()` applied to the triplets (numpy's default sort is not stable; the theorems hold for
every permutation that sorts by row, this stable insertion sort is the one the driver executes; it is
structurally recursive so that finite instances reduce in the kernel) -/
def insertByRow (t : Trip) : List Trip → List Trip
  | [] => [t]
  | u :: us => if t.row ≤ u.row then t :: u :: us else u :: insertByRow t us

def sortByRow : List Trip → List Trip
  | [] => []
  | t :: ts => insertByRow t (sortByRow ts)

/-- `np.where(rows == i)` (positions counted from `p`) -/
def whereEq (i : Nat) : List Nat → Nat → List Nat
  | [], _ => []
  | r :: rs, p => if r = i then p :: whereEq i rs (p + 1) else whereEq i rs (p + 1)

/-- body of the `indptr` loop -/
def indptrStep (rows : List Nat) (ip : List Nat) (i : Nat) : List Nat :=
  match whereEq i rows 0 with
  | [] => ip.set (i + 1) (ip.getD i 0)
  | p :: ps => (ip.set i p).set (i + 1) ((p :: ps).getLast?.getD 0 + 1)

/-- `indptr = zeros(n_rows + 1); for i in range(n_rows): …` -/
def indptrLoop (rows : List Nat) (nrows : Nat) : List Nat :=
  (List.range nrows).foldl (indptrStep rows) (List.replicate (nrows + 1) 0)

structure BSR where
  blocks : List Mat
  columns : List Nat
  indptr : List Nat

/-- `bsr_matrix((all_blocks, columns, indptr))` from a row-sorted triplet list -/
def assembleSorted (nrows : Nat) (sorted : List Trip) : BSR :=
  { blocks := sorted.map (·.blk), columns := sorted.map (·.col),
    indptr := indptrLoop (sorted.map (·.row)) nrows }

def assemble (nrows : Nat) (ts : List Trip) : BSR := assembleSorted nrows (sortByRow ts)

/-- denotation of a BSR triple: block row `bi` owns the stored blocks `indptr[bi] … indptr[bi+1]-1`,
a stored block belongs to block column `columns[p]`, duplicates add up (scipy's contract) -/
def bsrBlockEnt (b : BSR) (bi bj a c : Nat) : Rat :=
  let lo := b.indptr.getD bi 0
  let hi := b.indptr.getD (bi + 1) 0
  ((((b.columns.zip b.blocks).drop lo).take (hi - lo)).map fun cb =>
    if cb.1 = bj then ent cb.2 a c else 0).sum

/-- scalar entry `(I, J)` of the sparse matrix with `k × k` blocks -/
def bsrEnt (k : Nat) (b : BSR) (I J : Nat) : Rat := bsrBlockEnt b (I / k) (J / k) (I % k) (J % k)

/-- scalar entry `(I, J)` of the sum of the embedded triplets -/
def tripsEntFlat (k : Nat) (ts : List Trip) (I J : Nat) : Rat := tripsEnt ts (I / k) (J / k) (I % k) (J % k)

/-! ### dense scatter -/

/-- `P[r0:r0+k, c0:c0+k] (op)= …` on an `n × n` table -/
def updBlock (n : Nat) (P : Mat) (r0 c0 k : Nat) (g : Nat → Nat → Rat → Rat) : Mat :=
  tab n n fun i j =>
    if r0 ≤ i ∧ i < r0 + k ∧ c0 ≤ j ∧ j < c0 + k then g (i - r0) (j - c0) (ent P i j) else ent P i j

def addBlock (n : Nat) (P : Mat) (r0 c0 k : Nat) (B : Mat) : Mat :=
  updBlock n P r0 c0 k fun a b x => x + ent B a b
def setBlock (n : Nat) (P : Mat) (r0 c0 k : Nat) (B : Mat) : Mat :=
  updBlock n P r0 c0 k fun a b _ => ent B a b

/-- loop body of `_create_dense_precision`, statement order as coded in each mode -/
def denseStep (m : Mode) (k n : Nat) (P : Mat) (eB : (Nat × Nat) × Mat) : Mat :=
  let v1 := eB.1.1
  let v2 := eB.1.2
  let B := eB.2
  match m with
  | .concat =>
    let P := addBlock n P (v1 * k) (v1 * k) k (blkOf B 0 0 k)
    let P := addBlock n P (v2 * k) (v2 * k) k (blkOf B k k k)
    let P := setBlock n P (v1 * k) (v2 * k) k (blkOf B 0 k k)
    setBlock n P (v2 * k) (v1 * k) k (blkOf B k 0 k)
  | .sub =>
    let P := setBlock n P (v1 * k) (v2 * k) k (negBlk B k)
    let P := setBlock n P (v2 * k) (v1 * k) k (negBlk B k)
    let P := addBlock n P (v1 * k) (v1 * k) k (blkOf B 0 0 k)
    addBlock n P (v2 * k) (v2 * k) k (blkOf B 0 0 k)

def zeros (n : Nat) : Mat := tab n n fun _ _ => 0

def dense (m : Mode) (k n : Nat) (es : List (Nat × Nat)) (Bs : List Mat) : Mat :=
  (es.zip Bs).foldl (denseStep m k n) (zeros n)

/-- `_create_dense_diagonal_precision`: `P[v block, v block] = B_v` for `v = v0, v0+1, …` -/
def denseDiagFrom (k n : Nat) : Nat → List Mat → Mat → Mat
  | _, [], P => P
  | v, B :: Bs, P => denseDiagFrom k n (v + 1) Bs (setBlock n P (v * k) (v * k) k (blkOf B 0 0 k))

def denseDiag (k n : Nat) (Bs : List Mat) : Mat := denseDiagFrom k n 0 Bs (zeros n)

/-! ### Mahalanobis distance -/

/-- `xᵀ P x` over `n` coordinates -/
def qf (n : Nat) (P : Nat → Nat → Rat) (x : Nat → Rat) : Rat :=
  sumTo n fun I => sumTo n fun J => x I * P I J * x J

/-- `samples - tile(mean)` -/
def subMean (S : Mat) (mu : List Rat) (n : Nat) : Mat :=
  S.map fun row => (List.range n).map fun j => row.getD j 0 - mu.getD j 0

/-- sparse branch: `tmp = P.dot(S.T); d = S.dot(tmp); diag(d)` -/
def mahalSparse (n : Nat) (P : Nat → Nat → Rat) (S : Mat) : List Rat :=
  let m := S.length
  let tmp : Mat := tab n m fun I i' => sumTo n fun J => P I J * ent S i' J
  let d : Mat := tab m m fun i i' => sumTo n fun I => ent S i I * ent tmp I i'
  (List.range m).map fun i => ent d i i

/-- dense branch: `einsum('ij,ij->i', S.dot(P), S)` -/
def mahalDense (n : Nat) (P : Nat → Nat → Rat) (S : Mat) : List Rat :=
  let m := S.length
  let sp : Mat := tab m n fun i J => sumTo n fun I => ent S i I * P I J
  (List.range m).map fun i => sumTo n fun J => ent sp i J * ent S i J

/-! ### the whole constructor on exact data (`n_components = None`) -/

def mapM? {α β} (f : α → Option β) : List α → Option (List β)
  | [] => some []
  | a :: as => match f a, mapM? f as with
    | some b, some bs => some (b :: bs)
    | _, _ => none

/-- per-edge inverted covariances `B_e` (none when a covariance is singular) -/
def edgeBlocks (m : Mode) (k : Nat) (X : Mat) (N : Nat) (bias : Bool) (es : List (Nat × Nat)) :
    Option (List Mat) :=
  mapM? (fun e => invChecked (covMat (edgeData m k X N e) N (m.dim k) bias) (m.dim k)) es

/-- per-vertex inverted covariances (edgeless graph) -/
def vertexBlocks (k : Nat) (X : Mat) (N : Nat) (bias : Bool) (V : Nat) : Option (List Mat) :=
  mapM? (fun v => invChecked (covMat (vertexData k X N v) N k bias) k) (List.range V)

structure Model where
  /-- dense storage -/
  denseP : Mat
  /-- sparse storage -/
  sparseP : BSR
  mean : List Rat

/-- `GMRFVectorModel.__init__` for both storage modes at once (`n_edges == 0` selects the diagonal
constructors, as coded) -/
def build (m : Mode) (k V : Nat) (X : Mat) (N : Nat) (bias : Bool) (es : List (Nat × Nat)) : Option Model :=
  let n := V * k
  if es.isEmpty then
    match vertexBlocks k X N bias V with
    | none => none
    | some Bs => some ⟨denseDiag k n Bs, assemble V (diagTrips k 0 Bs), meanVec X N n⟩
  else
    match edgeBlocks m k X N bias es with
    | none => none
    | some Bs => some ⟨dense m k n es Bs, assemble V (allTrips m k es Bs), meanVec X N n⟩

/-- the same with the inverted blocks handed in (contract parameter: truncated-SVD inverse) -/
def buildGiven (m : Mode) (k V : Nat) (X : Mat) (N : Nat) (es : List (Nat × Nat)) (Bs : List Mat) : Model :=
  let n := V * k
  if es.isEmpty then ⟨denseDiag k n Bs, assemble V (diagTrips k 0 Bs), meanVec X N n⟩
  else ⟨dense m k n es Bs, assemble V (allTrips m k es Bs), meanVec X N n⟩

/-! ### the constructor as coded before the repair `C12-scalar-feature-covariance`

`np.cov` of a single feature returns a 0-dimensional array; `np.linalg.inv`, `np.linalg.svd` and the
fallback `inv` of `_covariance_matrix_inverse` all raise `LinAlgError` on it.  That happens exactly when
the per-edge (per-vertex) feature vector has one entry: one feature per vertex with
`mode='subtraction'`, or with an edgeless graph.  The repair (`np.atleast_2d`) makes the coded
constructor equal to `build`. -/

inductive BuildErr | zeroDim | singular
  deriving DecidableEq, Repr

/-- size of the covariance the constructor inverts -/
def covDim (m : Mode) (k : Nat) (es : List (Nat × Nat)) : Nat := if es.isEmpty then k else m.dim k

def buildCoded (m : Mode) (k V : Nat) (X : Mat) (N : Nat) (bias : Bool) (es : List (Nat × Nat)) :
    Except BuildErr Model :=
  if covDim m k es = 1 then .error .zeroDim
  else match build m k V X N bias es with
    | some M => .ok M
    | none => .error .singular

def isZeroDim : Except BuildErr Model → Bool
  | .error .zeroDim => true
  | _ => false

def buildFixed (m : Mode) (k V : Nat) (X : Mat) (N : Nat) (bias : Bool) (es : List (Nat × Nat)) :
    Except BuildErr Model :=
  match build m k V X N bias es with
  | some M => .ok M
  | none => .error .singular

/-! ### rank truncation: the `n_components` branch of `_covariance_matrix_inverse` -/

/-- `G[p][q] = Σ_{r<R} w_r · a_{r,p} · a_{r,q}` -/
def gram (d R : Nat) (w : Nat → Rat) (a : Nat → Nat → Rat) : Mat :=
  tab d d fun p q => sumTo R fun r => w r * a r p * a r q

/-- the coded formula `s[:, :n].dot(np.diag(1 / v[:n])).dot(d[:n, :])` with
`(s, v, d) = np.linalg.svd(cov_mat)` a contract parameter (`U`, `s`, `Vh`); Python slicing clips
`n_components` at the size of the matrix -/
def svdTrunc (d nc : Nat) (U : Mat) (s : List Rat) (Vh : Mat) : Mat :=
  tab d d fun i j => sumTo (min nc d) fun l => ent U i l * (1 / s.getD l 0) * ent Vh l j

/-- `⟨w_i, w_j⟩` for rows `i`, `j` of `W` -/
def rowDot (d : Nat) (W : Mat) (i j : Nat) : Rat := sumTo d fun p => ent W i p * ent W j p

/-- truncated pseudo-inverse from a rational eigen-decomposition: eigenvalues `sig` (descending), the rows
of `W` pairwise orthogonal eigenvectors (not normalised, so that they can stay rational):
`Σ_{i < n} w_i w_iᵀ / (σ_i ‖w_i‖²)` -/
def specTrunc (d nc : Nat) (sig : List Rat) (W : Mat) : Mat :=
  gram d (min nc d) (fun i => 1 / (sig.getD i 0 * rowDot d W i i)) (ent W)

/-- the matrix the eigen-decomposition denotes: `Σ_{i < d} σ_i w_i w_iᵀ / ‖w_i‖²` -/
def specCov (d : Nat) (sig : List Rat) (W : Mat) : Mat :=
  gram d d (fun i => sig.getD i 0 / rowDot d W i i) (ent W)

/-- the spectral projector on the kept eigenvectors: `Σ_{i < n} w_i w_iᵀ / ‖w_i‖²` -/
def specProj (d nc : Nat) (W : Mat) : Mat :=
  gram d (min nc d) (fun i => 1 / rowDot d W i i) (ent W)

def allLt (n : Nat) (p : Nat → Bool) : Bool := (List.range n).all p

/-- the eigen-decomposition certificate is verified exactly by the model: orthogonal non-zero rows,
`C = Σ σ_i w_i w_iᵀ/‖w_i‖²`, eigenvalues non-negative and descending, the last kept one positive and
strictly above the first dropped one (so the truncated inverse is determined by `C` alone) -/
def checkSpec (C : Mat) (d nc : Nat) (sig : List Rat) (W : Mat) : Bool :=
  let r := min nc d
  let SC := specCov d sig W
  allLt d (fun i => allLt d fun j => decide (i = j ∨ rowDot d W i j = 0)) &&
  allLt d (fun i => decide (rowDot d W i i ≠ 0)) &&
  allLt d (fun p => allLt d fun q => decide (ent C p q = ent SC p q)) &&
  allLt d (fun i => decide (0 ≤ sig.getD i 0)) &&
  allLt d (fun i => decide (i + 1 < d → sig.getD (i + 1) 0 ≤ sig.getD i 0)) &&
  decide (0 < r → 0 < sig.getD (r - 1) 0) &&
  decide (0 < r → r < d → sig.getD r 0 < sig.getD (r - 1) 0)

/-- the truncated inverse, returned only when the model has verified the certificate -/
def truncChecked (C : Mat) (d nc : Nat) (sp : List Rat × Mat) : Option Mat :=
  if checkSpec C d nc sp.1 sp.2 then some (specTrunc d nc sp.1 sp.2) else none

/-- `_covariance_matrix_inverse` (after `np.atleast_2d`): `np.linalg.inv` for `n_components=None`, the
truncated-SVD formula otherwise (the `except:` fallback is unreachable under numpy's contract) -/
def covInverse (C : Mat) (d : Nat) (nc : Option Nat) (svd : Mat × List Rat × Mat) : Option Mat :=
  match nc with
  | none => invChecked C d
  | some r => some (svdTrunc d r svd.1 svd.2.1 svd.2.2)

/-- `GMRFVectorModel.__init__` with `n_components = nc` on data whose covariances have rational
eigen-decompositions (one certificate per edge / per vertex, verified by `truncChecked`) -/
def buildTrunc (m : Mode) (k V : Nat) (X : Mat) (N : Nat) (bias : Bool) (es : List (Nat × Nat)) (nc : Nat)
    (specs : List (List Rat × Mat)) : Option Model :=
  let n := V * k
  if es.isEmpty then
    if specs.length ≠ V then none else
    match mapM? (fun vs : Nat × (List Rat × Mat) =>
        truncChecked (covMat (vertexData k X N vs.1) N k bias) k nc vs.2) ((List.range V).zip specs) with
    | none => none
    | some Bs => some ⟨denseDiag k n Bs, assemble V (diagTrips k 0 Bs), meanVec X N n⟩
  else
    if specs.length ≠ es.length then none else
    match mapM? (fun ees : (Nat × Nat) × (List Rat × Mat) =>
        truncChecked (covMat (edgeData m k X N ees.1) N (m.dim k) bias) (m.dim k) nc ees.2) (es.zip specs) with
    | none => none
    | some Bs => some ⟨dense m k n es Bs, assemble V (allTrips m k es Bs), meanVec X N n⟩

/-! ### what the dense scatter computes on *any* edge list (antiparallel and repeated pairs included)

The diagonal blocks are written with `+=`, so they collect every edge; the off-diagonal blocks are
written with `=`, so block `(bi, bj)` holds what the *last* edge joining `bi` and `bj` (in either
direction) wrote there. -/

/-- what an edge `(v1, v2)` writes at block `(v1, v2)` -/
def off12 (m : Mode) (k : Nat) (B : Mat) (a c : Nat) : Rat :=
  match m with
  | .concat => ent (blkOf B 0 k k) a c
  | .sub => ent (negBlk B k) a c

/-- what an edge `(v1, v2)` writes at block `(v2, v1)` -/
def off21 (m : Mode) (k : Nat) (B : Mat) (a c : Nat) : Rat :=
  match m with
  | .concat => ent (blkOf B k 0 k) a c
  | .sub => ent (negBlk B k) a c

def offStep (m : Mode) (k bi bj a c : Nat) (acc : Rat) (eB : (Nat × Nat) × Mat) : Rat :=
  if eB.1.1 = bi ∧ eB.1.2 = bj then off12 m k eB.2 a c
  else if eB.1.2 = bi ∧ eB.1.1 = bj then off21 m k eB.2 a c
  else acc

/-- entry `(a, c)` of off-diagonal block `(bi, bj)` after the loop: last writer wins -/
def lastOff (m : Mode) (k : Nat) (es : List (Nat × Nat)) (Bs : List Mat) (bi bj a c : Nat) : Rat :=
  (es.zip Bs).foldl (offStep m k bi bj a c) 0

def denseSpec (m : Mode) (k : Nat) (es : List (Nat × Nat)) (Bs : List Mat) (I J : Nat) : Rat :=
  if I / k = J / k then tripsEntFlat k (allTrips m k es Bs) I J
  else lastOff m k es Bs (I / k) (J / k) (I % k) (J % k)

/-! ### `GMRFModel`: the object level (samples are `V × k` point sets) -/

/-- `PointCloud.as_vector()`: row-major flattening of a `V × k` array -/
def asVector (V k : Nat) (p : Mat) : List Rat := (List.range (V * k)).map fun I => ent p (I / k) (I % k)

/-- `as_matrix(samples)`: one flattened sample per row -/
def asMatrix (V k : Nat) (samples : List Mat) : Mat := samples.map (asVector V k)

/-- `template_instance.from_vector(v)` -/
def fromVector (V k : Nat) (v : List Rat) : Mat := tab V k fun a b => v.getD (a * k + b) 0

/-- `GMRFModel.__init__`: `as_matrix`, then `GMRFVectorModel.__init__` with `n_samples = data.shape[0]` -/
def buildObj (m : Mode) (k V : Nat) (samples : List Mat) (bias : Bool) (es : List (Nat × Nat)) : Option Model :=
  build m k V (asMatrix V k samples) samples.length bias es

/-- `GMRFModel.mean()` -/
def meanObj (V k : Nat) (M : Model) : Mat := fromVector V k M.mean

/-- argument of `GMRFModel.mahalanobis_distance`: one instance or a list of instances -/
inductive Query
  | one (p : Mat)
  | many (ps : List Mat)

/-- `samples.as_vector()[..., None].T` resp. `as_matrix(samples)` -/
def queryMatrix (V k : Nat) : Query → Mat
  | .one p => [asVector V k p]
  | .many ps => asMatrix V k ps

/-! ### `GMRFVectorModel._data_to_matrix` -/

/-- `_data_to_matrix(data, n_samples)`: `n_samples=None` takes `len(data)`; a list of samples is turned into an
array and cut to its first `n_samples` rows, an array is taken whole (and `n_samples` is only recorded) -/
def dataToMatrix (isArray : Bool) (data : Mat) (nSamples : Option Nat) : Mat × Nat :=
  match nSamples with
  | none => (data, data.length)
  | some n => (if isArray then data else data.take n, n)

/-- `GMRFVectorModel.__init__(samples, graph, n_samples=…)`: everything is computed from the rows of the data
matrix (`np.mean`, `np.cov`), `n_samples` itself only selects them -/
def buildFrom (m : Mode) (k V : Nat) (isArray : Bool) (data : Mat) (nSamples : Option Nat) (bias : Bool)
    (es : List (Nat × Nat)) : Option Model :=
  let X := (dataToMatrix isArray data nSamples).1
  build m k V X X.length bias es

end MenpoModel.C12
