/-
C14 — graphs whose stored entries are INTEGERS of any sign ("the edges can have a weight value"; negative weights are
legal and are what e.g. a maximum spanning tree computed as a minimum spanning tree of the negated weights carries).

Every structural operation of `menpo/shape/graph.py` (edges, neighbours / children / parents, isolated vertices,
adjacency list, edge test, cycle / tree tests, path enumeration, masking, the Tree constructor and the tree queries)
reads the stored entries through `!= 0` / `.nonzero()` only, so on a signed graph it is the operation of the graph of
absolute values (`SGraph.abs`), while the entries themselves — sign included — are what masking carries over.
`Props/C14.lean` (section 12) proves this; the driver parses signed entries and echoes signed entries.  Core Lean only.
-/
import MenpoModel.Core.C14Graph

namespace MenpoModel.C14

structure SGraph where
  n : Nat
  w : Nat → Nat → Int

namespace SGraph

/-- the graph of absolute values: same zero pattern -/
def abs (g : SGraph) : Graph := ⟨g.n, fun i j => (g.w i j).natAbs⟩

/-- a graph with natural-number entries read as a signed graph -/
def ofGraph (g : Graph) : SGraph := ⟨g.n, fun i j => (g.w i j : Int)⟩

/-- `is_edge` : `adjacency_matrix[v1, v2] != 0` on the signed entry -/
def isEdge (g : SGraph) (u v : Nat) : Bool := g.w u v != 0

/-- `adjacency_matrix[u, :].nonzero()[1]` on the signed entries -/
def row (g : SGraph) (u : Nat) : List Nat := (List.range g.n).filter fun v => g.w u v != 0

/-- `adjacency_matrix[:, v].nonzero()[0]` on the signed entries -/
def col (g : SGraph) (v : Nat) : List Nat := (List.range g.n).filter fun u => g.w u v != 0

/-- `adjacency_matrix[keep, :][:, keep]` : the entries are carried over with their sign -/
def select (g : SGraph) (keep : List Nat) : SGraph :=
  ⟨keep.length, fun i j => g.w (keep.getD i 0) (keep.getD j 0)⟩

def mask (g : SGraph) (m : List Bool) : SGraph := g.select (keepIdx g.n m)

def rows (g : SGraph) : List (List Int) :=
  (List.range g.n).map fun i => (List.range g.n).map fun j => g.w i j

/-- `(A != A.T).nnz == 0` on the signed entries -/
def symmetricB (g : SGraph) : Bool :=
  (List.range g.n).all fun i => (List.range g.n).all fun j => g.w i j == g.w j i

end SGraph
end MenpoModel.C14
