/-
C19 — vocabulary of the source translation of the list-building functions of `menpo/io/input/base.py`
(`glob_with_suffix`, `importer_for_filepath`, `_import_glob_lazy_list`, `_import_lazylist_attach_landmarks`) and the
Core definitions they are proved equal to.  The file system is a parameter (`GlobWorld`): the pathlib listing of the
pattern (sorted or not) and what `random.shuffle` does.  Core Lean only.
-/
import MenpoModel.Core.C19Py
import MenpoModel.Core.PyWhileG

namespace MenpoModel.LazyList
open MenpoModel.PyData

structure GlobWorld where
  listing : Bool → List FileEnt                 -- `_pathlib_glob_for_pattern(pattern, sort=…)`
  shuffled : List FileEnt → List FileEnt        -- `random.shuffle`

/-- `extensions_map.get(k)`: the importer registered under extension `k` (identified with `k`), or `None` -/
def Py.dictGet (known : List Nat) (k : Nat) : Option Nat := if known.contains k then some k else none

/-- truth value of a list -/
def Py.truthyList {α} (l : List α) : Bool := !l.isEmpty

/-- truth value of `None` / an int -/
def Py.truthyOptInt : Option Int → Bool
  | none => false
  | some v => v != 0

/-- `x <= n` for `x` that may be `None` (Python 3: TypeError) -/
def Py.optLe : Option Int → Int → Except Err Bool
  | none, _ => .error .type
  | some v, n => .ok (decide (v ≤ n))

/-- `l[:n]` (CPython slice semantics, `n` may be `None` or negative) -/
def Py.sliceTo {α} (l : List α) (n : Option Int) : List α :=
  match sliceIndices none n none l.length with
  | some r => gather l r
  | none => []

/-- `print_progress(x, …)`: yields the items of `x` unchanged -/
def Py.progress (l : LL) : LL := l

instance : PyIter LL LThunk := ⟨LL.callables⟩

/-- `partial(_import, f, extension_map, landmark_resolver=r, landmark_ext_map=x, landmark_attach_func=a, …)`:
the importer chosen by the extension, then — when a resolver, an attach function and a landmark extension map are
all given — the landmark resolver (`_import`: both guards) -/
def importThunkSrc (known : List Nat) (r : Option Nat) (lmExt attach : Bool) (f : FileEnt) : LThunk :=
  importThunk known (if lmExt && attach then r else none) f

/-- what `_import_glob_lazy_list` returns -/
inductive GlobRes where
  | list (l : LL)
  | gen (ts : List LThunk)       -- `(a for a in lazy_list)`: the reads the generator performs, in order
deriving Repr, DecidableEq

class ToGlobRes (α : Type) where
  ret : α → GlobRes
instance : ToGlobRes LL := ⟨.list⟩
instance : ToGlobRes GlobRes := ⟨id⟩

def importGlobFull (w : GlobWorld) (known : List Nat) (max : Option Int) (r : Option Nat) (lmExt attach : Bool)
    (shuffle asGen : Bool) : Except Err GlobRes :=
  let paths := globWithSuffix known (w.listing (!shuffle))
  let paths := if shuffle then w.shuffled paths else paths
  match capAssets max paths with
  | none => .error .value
  | some fp =>
    if fp.length = 0 then .error .value
    else
      let ts := fp.map (importThunkSrc known r lmExt attach)
      .ok (if asGen then .gen ts else .list ⟨ts⟩)

/-- the landmark resolver of frame `i`: `partial(landmark_resolver, x.path, i)` -/
def Py.frameResolver (r : Option Nat) (i : Int) : Nat := r.getD 0 + i.toNat

def Py.enumerate {α} (l : List α) : List (Int × α) := l.zipIdx.map fun p => ((p.2 : Int), p.1)

def Py.listSet {α} (l : List α) (k : Int) (v : α) : List α := l.set k.toNat v

end MenpoModel.LazyList

namespace MenpoModel.LazyList

/-- `_import_lazylist_attach_landmarks`: every lazy list (one video) among the built objects gets, frame by frame, the
landmark resolver of that frame (`partial(wrap_landmarks, partial(landmark_resolver, path, i))` for frame `i`) -/
def attachLazyFull (built : List LL) (r : Option Nat) (lmx : Option Unit) : Except Err (List LL) :=
  if lmx.isSome && r.isSome then
    .ok (built.map fun x =>
      ⟨List.zipWith LThunk.app ((List.range x.callables.length).map (r.getD 0 + ·)) x.callables⟩)
  else .ok built

end MenpoModel.LazyList

namespace MenpoModel.LazyList

/-! ### `_import`: the per-element callable of the importer lists, executed symbolically (which object flows where) -/

structure ImportWorld where
  isFile : FileEnt → Bool                       -- `path.is_file()`
  arity : Nat → FileEnt → Option Nat            -- importer `k` on file `f` returns a python list of that many objects
                                                -- (`none`: a single object)

/-- `built_objects`: what produces the object(s), and whether / how long a python list it is -/
structure Built where
  t : LThunk
  shape : Option Nat
deriving Repr, DecidableEq

/-- `importer_callable(path, asset=asset, **importer_kwargs)`: the logged call of importer `k` on the file -/
def Built.ofImporter (w : ImportWorld) (k : Nat) (f : FileEnt) : Built := ⟨.base k f.id, w.arity k f⟩
def Built.isList (b : Built) : Bool := b.shape.isSome
/-- `[built_objects]` -/
def Built.wrap (b : Built) : Built := ⟨b.t, some 1⟩
def Built.len (b : Built) : Nat := b.shape.getD 0
/-- `built_objects[0]` -/
def Built.first (b : Built) : Built := ⟨b.t, none⟩
/-- `landmark_attach_func(built_objects, landmark_resolver, landmark_ext_map=…)` (`_import_object_attach_landmarks` /
`_import_lazylist_attach_landmarks`: both act only when a resolver AND an extension map are given): the resolver is
applied to what was built -/
def Built.attach (b : Built) (r : Option Nat) (lmx : Option Unit) : Built :=
  match r, lmx with
  | some g, some _ => ⟨.app g b.t, b.shape⟩
  | _, _ => b

/-- the shape of what `_import` returns: a one-element list is unwrapped, a single object is returned as it is -/
def finalShape : Option Nat → Option Nat
  | none => none
  | some n => if n = 1 then none else some n

def importFull (w : ImportWorld) (f : FileEnt) (known : List Nat) (r : Option Nat) (lmx att : Option Unit) :
    Except Err Built :=
  if !w.isFile f then .error .value
  else match importKind known f with
    | none => .error .value
    | some k => .ok ⟨(match att, r, lmx with
        | some _, some g, some _ => .app g (.base k f.id)
        | _, _, _ => .base k f.id), finalShape (w.arity k f)⟩

end MenpoModel.LazyList
