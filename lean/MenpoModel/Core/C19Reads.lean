/-
C19 — what READING a lazy list evaluates: single reads, sequences of reads (no memo), iteration
(`Sequence.__iter__`: `self[0], self[1], …` until IndexError), consuming a prefix of the generator
`(a for a in lazy_list)` of the importers, the other `Sequence` mix-ins (`in`, `index`, `count`,
`reversed`), and reads through a mapped non-callable.  Core Lean only.
-/
import MenpoModel.Core.LazyList

namespace MenpoModel.LazyList
open MenpoModel.PyData

/-! ### ordinary lists with provenance: the reference for value AND evaluation log of every element -/

/-- what `f` applied to an already-evaluated element with provenance `l` gives -/
def stepLog (e : Env) (f : Nat) (x : Int × List Ev) : Int × List Ev := (e.fn f x.1, x.2 ++ [.call f x.1])

def Prog.refLog (e : Env) : Prog → Except Err (List (Int × List Ev))
  | .base b n => .ok ((List.range n).map fun i => (e.baseVal b i, [.acc b i]))
  | .map f p => mapE (List.map (stepLog e f)) (p.refLog e)
  | .mapEach fs p => bindE (p.refLog e) fun vs =>
      if fs.length = vs.length then .ok (List.zipWith (stepLog e) fs vs) else .error .value
  | .select s p => bindE (p.refLog e) fun vs => mapE (gather vs) (s.resolve vs.length)
  | .rep n p => mapE (fun vs => vs.flatMap (List.replicate n)) (p.refLog e)
  | .add p q => bindE (p.refLog e) fun a => mapE (a ++ ·) (q.refLog e)
  | .addPlain p vs => mapE (· ++ vs.map fun v => (v, [])) (p.refLog e)
  | .copy p => p.refLog e
  | .iter f vs => .ok (vs.map fun x => match f with
      | none => (x, [])
      | some g => stepLog e g (x, []))
  | .glob r known files max =>
      mapE (List.map fun f =>
        let k := (importKind known f).getD 0
        let x : Int × List Ev := (e.baseVal k f.id, [.acc k f.id])
        match r with | none => x | some g => stepLog e g x) (optE (globPaths known files max))

/-- the frame list `import_video` returns (`ffmpeg_importer` + `_import_lazylist_attach_landmarks`):
`init_from_index_callable(reader-frame, n)`, and with a landmark resolver
`.map([partial(wrap_landmarks, partial(resolver, path, i)) for i in range(n)])` — frame `i` gets resolver `r0 + i` -/
def videoFrames (b n : Nat) (r0 : Option Nat) : Prog :=
  match r0 with
  | none => .base b n
  | some r => .mapEach ((List.range n).map (r + ·)) (.base b n)

/-! ### reads -/

/-- one `ll[i]` on a list of callables: result and what was evaluated (an IndexError evaluates nothing:
`self._callables[i]` raises before anything is called) -/
def readAt (e : Env) (ts : List LThunk) (i : Int) : Except Err Int × List Ev :=
  match normIndex ts.length i with
  | none => (.error .index, [])
  | some j => match ts[j]? with
    | some t => (.ok (t.evalLog e).1, (t.evalLog e).2)
    | none => (.error .index, [])

/-- a sequence of reads on the same list; the log is what the instrumented callables saw, in order -/
def readsAt (e : Env) (ts : List LThunk) : List Int → List (Except Err Int) × List Ev
  | [] => ([], [])
  | i :: is => ((readAt e ts i).1 :: (readsAt e ts is).1, (readAt e ts i).2 ++ (readsAt e ts is).2)

/-- `Sequence.__iter__` (`i = 0; while True: yield self[i]; i += 1`, IndexError ends it), run for at most
`fuel` steps: `fuel ≤ len` is "consume `fuel` items of the generator", `fuel > len` is exhaustion -/
def iterFrom (e : Env) (ts : List LThunk) (i : Nat) : Nat → List Int × List Ev
  | 0 => ([], [])
  | fuel + 1 =>
    match readAt e ts (i : Int) with
    | (.ok v, l) => (v :: (iterFrom e ts (i + 1) fuel).1, l ++ (iterFrom e ts (i + 1) fuel).2)
    | (.error _, l) => ([], l)

/-- `list(ll)` / `for x in ll` -/
def iterAll (e : Env) (ts : List LThunk) : List Int × List Ev := iterFrom e ts 0 (ts.length + 1)

/-- the elements a search for `v` evaluates: up to and including the first element equal to `v` -/
def upToFirst (e : Env) (v : Int) : List LThunk → List LThunk
  | [] => []
  | t :: ts => if t.eval e = v then [t] else t :: upToFirst e v ts

def evAcc : Ev → Option (Nat × Nat) | .acc b i => some (b, i) | _ => none

def logsOf (e : Env) (ts : List LThunk) : List Ev := (ts.map fun t => (t.evalLog e).2).flatten

/-- `v in ll` (`Sequence.__contains__`: iterate, stop at the first equal element) -/
def containsTs (e : Env) (v : Int) : List LThunk → Bool × List Ev
  | [] => (false, [])
  | t :: ts =>
    if (t.evalLog e).1 = v then (true, (t.evalLog e).2)
    else ((containsTs e v ts).1, (t.evalLog e).2 ++ (containsTs e v ts).2)

/-- `ll.index(v)` (`Sequence.index`): position of the first equal element, `none` = ValueError after a full pass -/
def indexTs (e : Env) (v : Int) : List LThunk → Option Nat × List Ev
  | [] => (none, [])
  | t :: ts =>
    if (t.evalLog e).1 = v then (some 0, (t.evalLog e).2)
    else ((indexTs e v ts).1.map (· + 1), (t.evalLog e).2 ++ (indexTs e v ts).2)

/-- `ll.count(v)` (`Sequence.count`): a full pass -/
def countTs (e : Env) (v : Int) (ts : List LThunk) : Nat × List Ev :=
  (((iterAll e ts).1.filter (· = v)).length, (iterAll e ts).2)

/-- `reversed(ll)` (`Sequence.__reversed__`: `for i in reversed(range(len(self))): yield self[i]`) -/
def reversedTs (e : Env) (ts : List LThunk) : List (Except Err Int) × List Ev :=
  readsAt e ts ((List.range ts.length).reverse.map fun (i : Nat) => (i : Int))

/-! ### a mapped object that is not callable (`ll.map(5)`): accepted lazily, the read raises TypeError
*after* the wrapped callable has been evaluated (`delay_f(delay_x())`) -/

def LThunk.evalLogX (e : Env) (bad : Nat → Bool) : LThunk → Except Err Int × List Ev
  | .base b i => (.ok (e.baseVal b i), [.acc b i])
  | .const v => (.ok v, [])
  | .app f t =>
    match t.evalLogX e bad with
    | (.ok v, l) => if bad f then (.error .type, l) else (.ok (e.fn f v), l ++ [.call f v])
    | (.error x, l) => (.error x, l)

/-- the mapped functions that do get called when the chain breaks at the first non-callable (innermost first) -/
def goodPrefix (bad : Nat → Bool) (fs : List Nat) : List Nat := fs.takeWhile (fun f => !bad f)

/-! ### histories on aliased list objects with reads in between -/

inductive HEv where
  | op (o : HOp)            -- an operation on earlier list objects (result stored in a fresh cell)
  | read (a : Nat) (i : Int) -- `objs[a][i]`
  | iterate (a : Nat)        -- `list(objs[a])`
deriving Repr

/-- play a history: the heap it leaves and everything the instrumented callables saw, in order -/
def hplay (e : Env) : Heap → List HEv → Heap × List Ev
  | h, [] => (h, [])
  | h, .op o :: evs => hplay e (hstep h o) evs
  | h, .read a i :: evs => ((hplay e h evs).1, (readAt e (h[a]?.getD []) i).2 ++ (hplay e h evs).2)
  | h, .iterate a :: evs => ((hplay e h evs).1, (iterAll e (h[a]?.getD [])).2 ++ (hplay e h evs).2)

def HEv.opOf : HEv → Option HOp
  | .op o => some o
  | _ => none

end MenpoModel.LazyList
