/-
C17 — the numpy vocabulary of the source translation (harness/trans_c17.py): one small total definition per
numpy primitive that menpo/shape/adjacency.py, menpo/shape/mesh/base.py, coloured.py, textured.py and normals.py
call.  `Generated/C17Src.lean` (written from the SOURCE TEXT of the working tree on every run) composes these
primitives exactly as the Python bodies compose the numpy calls; `GenProps/C17Src*.lean` prove the compositions equal
to the definitions of `Core/C17Mesh.lean` the C17 theorems are about.

Conventions
  * a 1-D array is a `List`, a 2-D array the `List` of its rows, a 3-D array the list of its 2-D slices;
    the column count of an array without rows is not represented (nothing in the translated code reads it
    except `reshape`, whose result then has no rows either);
  * index arrays hold naturals (no dtype: overflow of a narrow integer dtype is outside this model and is
    watched by the oracle's `large-index` family);
  * numpy raises where an index is out of range or shapes do not match; the primitives are totalised the way
    `Core/C17Mesh.lean` is (`points[trilist]` drops a row with an index out of range, element-wise operators
    stop at the shorter operand) — on well-formed meshes (every theorem's hypothesis) nothing is dropped;
  * the two calls that can raise on well-formed input are modelled in `Except`: `np.max` of an empty array
    (`Err.empty`) and a boolean index of the wrong length (`Err.index`);
  * `np.sqrt` / `np.linalg.norm` take the square-root function as a parameter `sqrt : Rat → Rat` (the contract
    `IsRoot (sqrt q) q` is a hypothesis where a theorem needs it);  division produces IEEE specials at a zero
    divisor (`F.nan`, `F.inf`), which `np.nan_to_num` maps to `0` / the largest finite double.
No Mathlib.
-/
import MenpoModel.Core.C17Mesh

namespace MenpoModel.C17.Np

/-! ## boolean and index arrays -/

/-- `~m` -/
def invert (m : List Bool) : List Bool := m.map (fun b => !b)

/-- `np.nonzero(m)[0]`: the positions holding `True`, ascending -/
def nonzero (m : List Bool) : List Nat := (List.range m.length).filter (fun i => m[i]? == some true)

/-- `np.all(m)` -/
def all (m : List Bool) : Bool := m.all id

/-- the entries of a 1-D or 2-D array in C order (numpy ravels implicitly in `np.unique`, `np.isin`, `np.setdiff1d`,
`np.max`); which of the two an argument is, Lean's typing decides -/
class Flat (A : Type) (β : outParam Type) where
  flat : A → List β
instance : Flat (List Nat) Nat := ⟨id⟩
instance : Flat (List Bool) Bool := ⟨id⟩
instance : Flat (List Rat) Rat := ⟨id⟩
instance : Flat (List (List Nat)) Nat := ⟨List.flatten⟩
instance : Flat (List (List Bool)) Bool := ⟨List.flatten⟩
instance : Flat (List (List Rat)) Rat := ⟨List.flatten⟩

/-- `a.ravel()` -/
def ravel {A β : Type} [Flat A β] (a : A) : List β := Flat.flat a

/-- `np.isin(xs, s)` for a 1-D `xs` -/
def isin (xs s : List Nat) : List Bool := xs.map (fun x => s.contains x)

/-- `a.shape[0]` -/
def shape0 {α : Type} (a : List α) : Nat := a.length

/-- `a.shape[1]` (0 for an array without rows: see the header) -/
def shape1 {α : Type} : List (List α) → Nat
  | [] => 0
  | r :: _ => r.length

/-- rows of `k` consecutive entries, at most `fuel` of them -/
def chunkF {α : Type} : Nat → Nat → List α → List (List α)
  | 0, _, _ => []
  | f + 1, k, l => if l.isEmpty then [] else l.take k :: chunkF f k (l.drop k)

/-- `l.reshape([-1, k])` of a 1-D array -/
def reshapeRows {α : Type} (l : List α) (k : Nat) : List (List α) := chunkF l.length k l

/-- `a.reshape(-1, k)` / `a.reshape([-1, k])` of a 1-D or 2-D array -/
def reshape {A β : Type} [Flat A β] (a : A) (k : Nat) : List (List β) := reshapeRows (ravel a) k

/-- `a.any(axis=1)` -/
def anyAxis1 (a : List (List Bool)) : List Bool := a.map (fun r => r.any id)

/-- `a[m, :]` / `a[m]` with a boolean mask of the right length -/
def rowFilter {α : Type} (a : List α) (m : List Bool) : List α := maskFilter a m

/-- `a[m]` with a boolean index: a wrong length raises IndexError -/
def boolIndex {α : Type} (a : List α) (m : List Bool) : Except Err (List α) :=
  if m.length ≠ a.length then .error .index else .ok (maskFilter a m)

/-- `int(np.max(a))`: ValueError on an empty array -/
def amax {A : Type} [Flat A Nat] (a : A) : Except Err Nat :=
  match ravel a with
  | [] => .error .empty
  | x :: xs => .ok (xs.foldl Nat.max x)

/-- `np.arange(n)` -/
def arange (n : Nat) : List Nat := List.range n

/-- `np.unique(l)` of a 1-D array of naturals: the distinct values, ascending -/
def unique1 (l : List Nat) : List Nat := (List.range (l.foldl Nat.max 0 + 1)).filter (fun v => l.contains v)

/-- `np.unique(a)` (numpy ravels) -/
def unique {A : Type} [Flat A Nat] (a : A) : List Nat := unique1 (ravel a)

/-- `r[idx] = vals` (one assignment per index, in order) -/
def setIdx {α : Type} (r : List α) (idx : List Nat) (vals : List α) : List α :=
  (idx.zip vals).foldl (fun r p => r.set p.1 p.2) r

/-- `r[idx] = c` for a scalar `c` -/
def setConst {α : Type} (r : List α) (idx : List Nat) (c : α) : List α := idx.foldl (fun r i => r.set i c) r

/-- `r[idx]` with a 1-D integer index (an index out of range reads the default: numpy raises) -/
def take {α : Type} [Inhabited α] (r : List α) (idx : List Nat) : List α := idx.map (fun i => r.getD i default)

/-- `np.setdiff1d(a, b)`: the distinct values of `a` not in `b`, ascending -/
def setdiff1d {A B : Type} [Flat A Nat] [Flat B Nat] (a : A) (b : B) : List Nat :=
  (unique1 (ravel a)).filter (fun v => !(ravel b).contains v)

/-- `np.zeros(n, dtype=bool)` -/
def zerosBool (n : Nat) : List Bool := List.replicate n false

/-- all the `Option`s are `some` -/
def allSome {α : Type} : List (Option α) → Option (List α)
  | [] => some []
  | none :: _ => none
  | some x :: xs => (allSome xs).map (fun l => x :: l)

/-- `pts[tl]` with a 2-D integer index: one row of `pts` per entry (a row of `tl` holding an index out of range is
dropped: `Core.triCorners`) -/
def fancy {α : Type} (pts : List α) (tl : List (List Nat)) : List (List α) :=
  tl.filterMap (fun row => allSome (row.map (fun i => pts[i]?)))

/-- `a[i]` with an integer index array `i`: 1-D (`take`) or 2-D (`fancy`) -/
class IntIndex (I : Type) (α : Type) (R : outParam Type) where
  get : List α → I → R
instance {α : Type} [Inhabited α] : IntIndex (List Nat) α (List α) := ⟨take⟩
instance {α : Type} : IntIndex (List (List Nat)) α (List (List α)) := ⟨fancy⟩
def index {I α R : Type} [IntIndex I α R] (a : List α) (i : I) : R := IntIndex.get a i

/-- `a[:, k]` -/
def col {β : Type} [Inhabited β] (a : List (List β)) (k : Nat) : List β := a.map (fun r => r.getD k default)

/-- `a[:, [i, j]]` -/
def cols2 {β : Type} [Inhabited β] (a : List (List β)) (i j : Nat) : List (List β) :=
  a.map (fun r => [r.getD i default, r.getD j default])

/-- `a[:, -1]` -/
def colLast {β : Type} [Inhabited β] (a : List (List β)) : List β := a.map (fun r => r.getLastD default)

/-- `x[..., None]` of a 1-D array: a column -/
def asColumn {β : Type} (x : List β) : List (List β) := x.map (fun v => [v])

/-- `a[:, :k]`, `a[:, k:]` -/
def colsTake {β : Type} (a : List (List β)) (k : Nat) : List (List β) := a.map (fun r => r.take k)
def colsDrop {β : Type} (a : List (List β)) (k : Nat) : List (List β) := a.map (fun r => r.drop k)

/-- `np.hstack` of two / three 2-D arrays with the same number of rows -/
def hstack2 {β : Type} (a b : List (List β)) : List (List β) := List.zipWith (fun x y => x ++ y) a b
def hstack3 {β : Type} (a b c : List (List β)) : List (List β) := hstack2 (hstack2 a b) c

/-- `np.concatenate([a, b, c])` / `np.vstack` along the first axis -/
def concat3 {β : Type} (a b c : List β) : List β := a ++ b ++ c

/-- insertion into an ascending list -/
def insertAsc (x : Nat) : List Nat → List Nat
  | [] => [x]
  | y :: ys => if x ≤ y then x :: y :: ys else y :: insertAsc x ys

/-- `np.sort` of one row -/
def sortRow (r : List Nat) : List Nat := r.foldr insertAsc []

/-- `np.sort(a)` / `np.sort(a, axis=1)`: every row ascending -/
def sortRows (a : List (List Nat)) : List (List Nat) := a.map sortRow

/-- `np.unique(view of the rows as opaque items, return_index=True)[1]`: the position of the first occurrence of
every distinct row (numpy lists them in the byte order of the rows, which is unspecified for the caller: here
ascending) -/
def uniqueRowIndex (a : List (List Nat)) : List Nat :=
  (List.range a.length).filter (fun i => match a[i]? with
    | some r => !(a.take i).contains r
    | none => false)

/-- `a[np.unique(view of the rows, return_index=True)[1]]`: the first occurrence of every distinct row -/
def firstRows (a : List (List Nat)) : List (List Nat) := take a (uniqueRowIndex a)

/-- `np.unique(k, return_inverse=True, return_counts=True)` of a 1-D array: (values, inverse, counts) -/
def uniqueInvCounts (k : List Nat) : List Nat × List Nat × List Nat :=
  let u := unique1 k
  (u, k.map (fun x => u.idxOf x), u.map (fun v => k.count v))

/-- `x == c` element-wise against a scalar -/
def eqScalar (x : List Nat) (c : Nat) : List Bool := x.map (fun v => v == c)

/-! ## element-wise arithmetic (numpy operators on arrays of equal shape; the scalar forms broadcast) -/

scoped instance : Sub (List Rat) := ⟨List.zipWith (fun x y => x - y)⟩
scoped instance : Mul (List Rat) := ⟨List.zipWith (fun x y => x * y)⟩
scoped instance : HMul (List Rat) Rat (List Rat) := ⟨fun l c => l.map (fun x => x * c)⟩
scoped instance : Sub (List (List Rat)) := ⟨List.zipWith (fun x y => x - y)⟩
scoped instance : Add (List Nat) := ⟨List.zipWith (fun x y => x + y)⟩
scoped instance : HMul (List Nat) Nat (List Nat) := ⟨fun l c => l.map (fun x => x * c)⟩

theorem sub_def1 (a b : List Rat) : a - b = List.zipWith (fun x y => x - y) a b := rfl
theorem mul_def1 (a b : List Rat) : a * b = List.zipWith (fun x y => x * y) a b := rfl
theorem smul_def1 (a : List Rat) (c : Rat) : a * c = a.map (fun x => x * c) := rfl
theorem sub_def2 (a b : List (List Rat)) : a - b = List.zipWith (fun x y => x - y) a b := rfl
theorem add_defN (a b : List Nat) : a + b = List.zipWith (fun x y => x + y) a b := rfl
theorem smul_defN (a : List Nat) (c : Nat) : a * c = a.map (fun x => x * c) := rfl

/-- `np.abs` of a 1-D array -/
def abs1 (l : List Rat) : List Rat := l.map absQ

/-- `np.cross(a, b)` row by row (rows of three; shorter rows read 0) -/
def crossRow (a b : List Rat) : List Rat :=
  [a.getD 1 0 * b.getD 2 0 - a.getD 2 0 * b.getD 1 0,
   a.getD 2 0 * b.getD 0 0 - a.getD 0 0 * b.getD 2 0,
   a.getD 0 0 * b.getD 1 0 - a.getD 1 0 * b.getD 0 0]
def cross (a b : List (List Rat)) : List (List Rat) := List.zipWith crossRow a b

/-- sum of the squares of a row -/
def sumSq (r : List Rat) : Rat := (r.map (fun x => x * x)).foldr (fun x y => x + y) 0

/-- `np.linalg.norm(a, axis=1)` -/
def normAxis1 (sqrt : Rat → Rat) (a : List (List Rat)) : List Rat := a.map (fun r => sqrt (sumSq r))

/-- `np.mean` of a 1-D array -/
def mean (l : List Rat) : Rat := meanQ l

/-- `v ** 2` of a 2-D array -/
def sq2 (v : List (List Rat)) : List (List Rat) := v.map (fun r => r.map (fun x => x * x))

/-- `a.sum(axis=1, keepdims=True)`: a column -/
def sumAxis1Keep (a : List (List Rat)) : List (List Rat) := a.map (fun r => [r.foldr (fun x y => x + y) 0])

/-- `np.sqrt` of a 2-D array -/
def sqrt2 (sqrt : Rat → Rat) (a : List (List Rat)) : List (List Rat) := a.map (fun r => r.map sqrt)

/-- a float64 quotient: a finite value, or the IEEE special a zero divisor produces -/
inductive F
  | val (q : Rat)
  | nan
  | inf (negative : Bool)
  deriving DecidableEq, Repr

/-- `x / r` in IEEE arithmetic (exact where finite) -/
def fdiv (x r : Rat) : F := if r = 0 then (if x = 0 then F.nan else F.inf (x < 0)) else F.val (x / r)

/-- `v / n` for an `(k, d)` array and a `(k, 1)` column (broadcast along the row) -/
def divCol (v n : List (List Rat)) : List (List F) :=
  List.zipWith (fun row d => row.map (fun x => fdiv x (d.getD 0 0))) v n

/-- the largest finite double, `(2 - 2^-52) * 2^1023` -/
def fmax : Rat := (2 ^ 1024 - 2 ^ 971 : Nat)

/-- `np.nan_to_num` -/
def nanToNum1 : F → Rat
  | .val q => q
  | .nan => 0
  | .inf neg => if neg then -fmax else fmax
def nanToNum (a : List (List F)) : List (List Rat) := a.map (fun r => r.map nanToNum1)

/-- `np.zeros(points.shape, dtype=points.dtype)` -/
def zerosLike (a : List (List Rat)) : List (List Rat) := a.map (fun r => r.map (fun _ => 0))

/-- the two kinds of dtype the accumulation of `compute_vertex_normals` can be given: the dtype of an integer `points`
array, or a floating point dtype -/
inductive DType | int | float
  deriving DecidableEq, Repr

/-- an accumulator array together with its dtype -/
structure Acc where
  dt : DType
  rows : List (List Rat)
  deriving DecidableEq, Repr

instance : Coe Acc (List (List Rat)) := ⟨Acc.rows⟩

/-- `np.zeros(p.shape, dtype=dt)` -/
def zerosDT (p : List (List Rat)) (dt : DType) : Acc := ⟨dt, p.map (fun r => r.map (fun _ => 0))⟩

/-- the value numpy stores when a float is added into an integer array: truncated toward zero -/
def truncQ (x : Rat) : Rat := if x < 0 then -((-x).floor : Int) else (x.floor : Int)

/-- `np.add.at(acc, idx, vals)` on an accumulator of dtype `acc.dt`: unbuffered; an INTEGER accumulator stores the
truncation of every sum (`same_kind` casting of the ufunc's in-place output) -/
def addAtDT (acc : Acc) (idx : List Nat) (vals : List (List Rat)) : Acc :=
  ⟨acc.dt, (idx.zip vals).foldl (fun a p => a.modify p.1 (fun r =>
    List.zipWith (fun x y => match acc.dt with
      | .float => x + y
      | .int => truncQ (x + y)) r p.2)) acc.rows⟩

/-- `np.add.at(acc, idx, vals)`: unbuffered, every occurrence of an index adds its row -/
def addAt (acc : List (List Rat)) (idx : List Nat) (vals : List (List Rat)) : List (List Rat) :=
  (idx.zip vals).foldl (fun a p => a.modify p.1 (fun r => List.zipWith (fun x y => x + y) r p.2)) acc

end MenpoModel.C17.Np

namespace MenpoModel.C17

/-- the three mesh classes -/
inductive Kind | plain | coloured | textured
  deriving DecidableEq, Repr

/-- a mesh object as numpy sees it: `n_dims`, the per-vertex arrays (rows of any type) and the triangle list as an
`(n_tris, 3)` integer array -/
structure NMesh (P C T : Type) where
  ndims : Nat
  points : List P
  colours : List C
  tcoords : List T
  trilist : List (List Nat)
  deriving Repr, DecidableEq

/-- the rows of an `(n, 3)` index array -/
def rows (ts : List Tri) : List (List Nat) := ts.map Tri.verts

/-- the rows of an `(n, 2)` index array -/
def Edge.toRow (e : Edge) : List Nat := [e.1, e.2]

def Mesh.toN {P C T : Type} (d : Nat) (M : Mesh P C T) : NMesh P C T :=
  { ndims := d, points := M.pts, colours := M.cols, tcoords := M.tcs, trilist := rows M.tris }

def V2.toList (v : V2) : List Rat := [v.x, v.y]
def V3.toList (v : V3) : List Rat := [v.x, v.y, v.z]

end MenpoModel.C17
