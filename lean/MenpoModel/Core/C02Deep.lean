/-
C02 — "this address holds that shape", deep.  `Rep` (Core/C02.lean) describes points, landmark groups and the
array / immutable attributes of a shape object.  `RepD` describes EVERY attribute: the deep digest of all
attributes other than `points` and `_landmarks`, in `__dict__` order, is the digest of the value's extras —
so attributes that are dicts (label masks) or objects (the `tcoords` PointCloud and the `texture` Image of a
textured mesh, with their own landmark managers and groups at any depth) are part of the statement, by
content.  Core Lean only.
-/
import MenpoModel.Core.C02

namespace MenpoModel.C02

/-- the attributes of a shape object other than `points` / `_landmarks`: their names, order and deep content
are those of `ex`, and every cell their digest reaches satisfies `Z` -/
def DeepX (h : Heap) (fs : Slots) (ex : Extra) (Z : Nat → Prop) : Prop :=
  ∃ j, digestSlots (digest j h) (filterX fs) = some (exToks ex) ∧
    ∀ b, b ∈ readsSlots (reads j h) (filterX fs) → Z b

/- `RepD base h s v`: value `v` on heap `h` is a shape object whose class, points, landmark groups (to every
depth) and ALL other attributes (deep) are those of `s`; the other attributes reach cells below `base` only.
No assumption on where cells live or on sharing.  (`base = h.length` is no restriction: `RepD.top`.) -/
mutual
def RepD (base : Nat) (h : Heap) : Shape → Val → Prop
  | .mk c x gs ex, v =>
    ∃ a fs p, v = .ref a ∧ h[a]? = some (.obj (.shape c) fs) ∧
      fs.lookup "points" = some (.ref p) ∧ h[p]? = some (.arr x) ∧
      DeepX h fs ex (fun b => b < base) ∧ LabelOK h c fs ∧
      ((fs.lookup "_landmarks" = some (.imm 0) ∧ gs = .nil) ∨
       (∃ l ls g gvs, fs.lookup "_landmarks" = some (.ref l) ∧ h[l]? = some (.obj .LandmarkManager ls) ∧
          ls.lookup "_landmark_groups" = some (.ref g) ∧ h[g]? = some (.dict gvs) ∧ RepGD base h gs gvs))
def RepGD (base : Nat) (h : Heap) : Groups → Slots → Prop
  | .nil, gvs => gvs = []
  | .cons n g r, gvs => ∃ v t, gvs = (n, v) :: t ∧ RepD base h g v ∧ RepGD base h r t
end

/-- where the other attributes of a laid-out shape object may reach: old cells, or cells of the object's own
interval outside the interval `[m0, m)` of its landmark groups and below the object `a` itself -/
def Zone (base lo m0 m a : Nat) (b : Nat) : Prop := b < base ∨ (lo ≤ b ∧ b < m0) ∨ (m ≤ b ∧ b < a)

/- the same, and every shape object of the tree lives in `[lo, hi)`, sibling trees in consecutive disjoint
sub-intervals below the object that owns them, other attributes in their `Zone` -/
mutual
def RepInD (base : Nat) (h : Heap) : Shape → Nat → Nat → Val → Prop
  | .mk c x gs ex, lo, hi, v =>
    ∃ a fs p m0 m, v = .ref a ∧ lo ≤ m0 ∧ m0 ≤ m ∧ m ≤ a ∧ a < hi ∧ h[a]? = some (.obj (.shape c) fs) ∧
      fs.lookup "points" = some (.ref p) ∧ h[p]? = some (.arr x) ∧
      DeepX h fs ex (Zone base lo m0 m a) ∧ LabelOK h c fs ∧
      ((fs.lookup "_landmarks" = some (.imm 0) ∧ gs = .nil) ∨
       (∃ l ls g gvs, fs.lookup "_landmarks" = some (.ref l) ∧ h[l]? = some (.obj .LandmarkManager ls) ∧
          ls.lookup "_landmark_groups" = some (.ref g) ∧ h[g]? = some (.dict gvs) ∧
          RepGInD base h gs m0 m gvs))
def RepGInD (base : Nat) (h : Heap) : Groups → Nat → Nat → Slots → Prop
  | .nil, lo, hi, gvs => gvs = [] ∧ lo ≤ hi
  | .cons n g r, lo, hi, gvs => ∃ v t m, gvs = (n, v) :: t ∧ RepInD base h g lo m v ∧ RepGInD base h r m hi t
end

/-- the landmark part of `RepInD`, named -/
def LmInD (base : Nat) (h : Heap) (fs : Slots) (gs : Groups) (m0 m : Nat) : Prop :=
  (fs.lookup "_landmarks" = some (.imm 0) ∧ gs = .nil) ∨
  (∃ l ls g gvs, fs.lookup "_landmarks" = some (.ref l) ∧ h[l]? = some (.obj .LandmarkManager ls) ∧
    ls.lookup "_landmark_groups" = some (.ref g) ∧ h[g]? = some (.dict gvs) ∧ RepGInD base h gs m0 m gvs)

/-- `v` is a landmark manager whose groups are `gs` (what `transform.apply(shape.landmarks)` is given) -/
def RepMD (base : Nat) (h : Heap) (gs : Groups) (v : Val) : Prop :=
  ∃ l ls g gvs, v = .ref l ∧ h[l]? = some (.obj .LandmarkManager ls) ∧
    ls.lookup "_landmark_groups" = some (.ref g) ∧ h[g]? = some (.dict gvs) ∧ RepGD base h gs gvs

/-- the landmark group object reached on the heap by a path of group names
(`x.landmarks[n₁].landmarks[n₂]…` without creating managers) -/
def atH (h : Heap) : Val → List String → Option Val
  | v, [] => some v
  | .imm _, _ :: _ => none
  | .ref a, n :: path =>
    match h[a]? with
    | some (.obj _ fs) =>
      match fs.lookup "_landmarks" with
      | some (.ref l) =>
        match h[l]? with
        | some (.obj .LandmarkManager ls) =>
          match ls.lookup "_landmark_groups" with
          | some (.ref g) =>
            match h[g]? with
            | some (.dict gvs) =>
              match gvs.lookup n with
              | some w => atH h w path
              | none => none
            | _ => none
          | _ => none
        | _ => none
      | _ => none
    | _ => none

/-! ### sequences of calls on shared objects -/

/-- one call `results.append(t.apply(x))`: the transform's array function, the fuel, and which object it is
applied to — an index into the initial objects followed by the results of the earlier calls -/
structure Call where
  f : Arr → Arr
  fuel : Nat
  src : Nat

def runH (d : Dispatch) : List Call → Heap → List Val → Except Err (Heap × List Val)
  | [], h, vs => .ok (h, vs)
  | c :: cs, h, vs =>
    match vs[c.src]? with
    | none => .error .attr
    | some v =>
      match applyH d c.f c.fuel h v with
      | .ok (h', v') => runH d cs h' (vs ++ [v'])
      | .error e => .error e

def runV (d : Dispatch) : List Call → List Shape → Except Err (List Shape)
  | [], ss => .ok ss
  | c :: cs, ss =>
    match ss[c.src]? with
    | none => .error .attr
    | some s =>
      match applyV d c.f s with
      | .ok s' => runV d cs (ss ++ [s'])
      | .error e => .error e

/-- the objects at `vs` hold the shapes `ss`, one by one (nothing is assumed about sharing between them) -/
def AllRep (h : Heap) : List Shape → List Val → Prop
  | [], [] => True
  | s :: ss, v :: vs => RepD h.length h s v ∧ AllRep h ss vs
  | _, _ => False

/-! ### which attributes the in-place pass rebinds -/

/-- the instance attributes `x._transform_inplace(t)` rebinds on `x` itself when `x` is of class `c`:
`Shape._transform_inplace` ends in `_transform_self_inplace`, which for `PointCloud`'s implementation is
`self.points = transform(self.points)` and for `Shape`'s is `pass`; `LandmarkManager._transform_inplace` only
calls into its groups -/
def inplaceWrites (d : Dispatch) (c : Cls) : List String :=
  match supInplace d c, supSelf d c with
  | some .Shape, some .PointCloud => ["points"]
  | _, _ => []

/-- measured table: class, attributes whose binding changed -/
abbrev WritesTable := List (Cls × List String)

def writesAgree (d : Dispatch) (t : WritesTable) : Bool := t.all fun r => r.2 == inplaceWrites d r.1

/-- every class of the dispatch table that can be transformed was measured -/
def writesCover (d : Dispatch) (t : WritesTable) : Bool :=
  d.all fun r => r.tInplace == .absent || t.any fun m => m.1 == r.cls

end MenpoModel.C02
