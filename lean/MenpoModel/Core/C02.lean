/-
C02 — transforming a shape moves points and landmarks as one and mutates nothing.
Core Lean only (no Mathlib).  Transcribed from

  menpo/transform/base/__init__.py   `Transform.apply`, `Transformable._transform`
  menpo/shape/base.py                `Shape._transform_inplace`, `Shape._transform_self_inplace` (`pass`)
  menpo/shape/pointcloud.py          `PointCloud._transform_self_inplace`  (`self.points = transform(self.points)`)
  menpo/landmark/base.py             `Landmarkable.has_landmarks`, `LandmarkManager._transform_inplace`, `.copy`
  menpo/base.py                      `Copyable.copy`
  menpo/shape/labelled.py            `LabelledPointUndirectedGraph.copy`

Two levels.

* value level: a shape is `(class, points, landmark groups (shapes again), extra)`; `applyV` is
  `copy` then `_transform_inplace`, every method looked up in the method-resolution table `Dispatch`
  exactly as Python resolves it (the table is regenerated from the live classes, `Generated/C02Dispatch`).
* heap level: Python objects are cells at addresses, so that "mutates nothing" is a statement about which
  cells a call writes.  `copy` allocates, `_transform_inplace` *rebinds* the `points` attribute of the
  objects it walks and allocates the arrays the transform returns.

The transform enters as `f : Arr → Arr`, the closure `x ↦ self._apply_batched(x, batch_size, **kwargs)`
that `Transform.apply` hands to `_transform`; contract (checked by the oracle on every run): it returns a
new array and does not write into its argument or into the transform.
-/

namespace MenpoModel.C02

/-- an `(n_points, n_dims)` ndarray (any 2-D array of numbers) -/
abbrev Arr := List (List Rat)

/-! ### classes and the method-resolution table -/

inductive SCls where
  | PointCloud | TriMesh | ColouredTriMesh | TexturedTriMesh
  | PointUndirectedGraph | PointDirectedGraph | PointTree | LabelledPointUndirectedGraph
deriving DecidableEq, Repr, Inhabited

inductive Cls where
  | shape (c : SCls)
  | LandmarkManager
  | Image
  | other            -- a class the tables do not list
deriving DecidableEq, Repr, Inhabited

/-- the class whose `__dict__` supplies a method -/
inductive Sup where
  | Shape | PointCloud | LandmarkManager | Transformable | Copyable | LabelledPointUndirectedGraph
  | absent           -- no class in the MRO defines it
  | unknown          -- a class this model has no transcription of
deriving DecidableEq, Repr, Inhabited

structure Row where
  cls : Cls
  tInplace : Sup     -- `_transform_inplace`
  tSelf : Sup        -- `_transform_self_inplace`
  tTransform : Sup   -- `_transform`
  copy : Sup         -- `copy`
deriving DecidableEq, Repr, Inhabited

abbrev Dispatch := List Row

def shapeRow (c : SCls) (copy : Sup) : Row := ⟨.shape c, .Shape, .PointCloud, .Transformable, copy⟩

/-- what the model is written against (and `GenProps/C02.lean` re-proves of the live classes) -/
def expectedDispatch : Dispatch := [
  shapeRow .PointCloud .Copyable,
  shapeRow .TriMesh .Copyable,
  shapeRow .ColouredTriMesh .Copyable,
  shapeRow .TexturedTriMesh .Copyable,
  shapeRow .PointUndirectedGraph .Copyable,
  shapeRow .PointDirectedGraph .Copyable,
  shapeRow .PointTree .Copyable,
  shapeRow .LabelledPointUndirectedGraph .LabelledPointUndirectedGraph,
  ⟨.LandmarkManager, .LandmarkManager, .absent, .Transformable, .LandmarkManager⟩,
  ⟨.Image, .absent, .absent, .absent, .Copyable⟩ ]

def rowOf (d : Dispatch) (c : Cls) : Option Row := d.find? (fun r => r.cls == c)

def supInplace (d : Dispatch) (c : Cls) : Option Sup := (rowOf d c).map Row.tInplace
def supSelf (d : Dispatch) (c : Cls) : Option Sup := (rowOf d c).map Row.tSelf
def supTransform (d : Dispatch) (c : Cls) : Option Sup := (rowOf d c).map Row.tTransform
def supCopy (d : Dispatch) (c : Cls) : Option Sup := (rowOf d c).map Row.copy

inductive Err where
  | attr      -- AttributeError
  | fuel      -- RecursionError
  | notImpl   -- NotImplementedError (`Transformable._transform_inplace`)
  | unknown   -- resolved implementation is not one of the transcribed ones
  | value     -- ValueError (`range(0, n, 0)`, `np.vstack([])`: `apply(x, batch_size <= 0)`)
  | index     -- IndexError (`x[:, dims]` with an index outside `[-n_dims, n_dims)` or a mask of the wrong length)
deriving DecidableEq, Repr, Inhabited

/-! ### value level -/

/-- one token of a *deep digest*: the pre-order serialisation of everything reachable from a value
(`harness/c02.py: toks_of` emits the same stream from a live Python object).  `imm` an immutable, `arr` an
ndarray / sparse matrix by content, `dictO … close` a dict / list with `key`-ed items in order, `objO c …
close` an instance of class `c` with its `__dict__` in order, `frozenO … close` an object without `.copy` -/
inductive Tok where
  | imm (t : Int)
  | arr (d : Arr)
  | dictO
  | frozenO
  | objO (c : Cls)
  | key (s : String)
  | close
deriving DecidableEq, Repr, Inhabited

/-- structure that must ride along untouched: per attribute an immutable value, an array (trilist,
colours, adjacency triplets …), a dict of arrays (label masks), or — `deep` — any object graph given by its
deep digest (the `tcoords` PointCloud and the `texture` Image of a textured mesh, with their own landmark
managers and groups) -/
inductive XV where
  | imm (t : Int)
  | arr (d : Arr)
  | dict (items : List (String × Arr))
  | deep (toks : List Tok)
deriving DecidableEq, Repr, Inhabited

abbrev Extra := List (String × XV)

mutual
inductive Shape where
  | mk (cls : SCls) (points : Arr) (lms : Groups) (extra : Extra)
inductive Groups where
  | nil
  | cons (name : String) (g : Shape) (rest : Groups)
end

instance : Inhabited Shape := ⟨.mk .PointCloud [] .nil []⟩

def Shape.cls : Shape → SCls | .mk c _ _ _ => c
def Shape.points : Shape → Arr | .mk _ p _ _ => p
def Shape.lms : Shape → Groups | .mk _ _ l _ => l
def Shape.extra : Shape → Extra | .mk _ _ _ e => e

def Groups.lookup : Groups → String → Option Shape
  | .nil, _ => none
  | .cons n g r, x => if n == x then some g else r.lookup x

def Groups.names : Groups → List String
  | .nil => []
  | .cons n _ r => n :: r.names

def Groups.isNil : Groups → Bool
  | .nil => true
  | _ => false

/-- the landmark group reached by a path of group names (`s.landmarks[n₁].landmarks[n₂]…`) -/
def Shape.at : Shape → List String → Option Shape
  | s, [] => some s
  | .mk _ _ l _, n :: path =>
    match l.lookup n with
    | some g => g.at path
    | none => none

/- the specification: the same tree with `f` applied to every points array -/
mutual
def mapShape (f : Arr → Arr) : Shape → Shape
  | .mk c p l e => .mk c (f p) (mapGroups f l) e
def mapGroups (f : Arr → Arr) : Groups → Groups
  | .nil => .nil
  | .cons n g r => .cons n (mapShape f g) (mapGroups f r)
end

/- `_transform_inplace` on values, method by method through the table -/
mutual
def inplaceV (d : Dispatch) (f : Arr → Arr) : Shape → Except Err Shape
  | .mk c p l e =>
    match rowOf d (.shape c) with
    | none => .error .attr
    | some r =>
      match r.tInplace with
      | .Shape =>
        -- if self.has_landmarks: self.landmarks._transform_inplace(transform)
        let lmsR : Except Err Groups :=
          if l.isNil then .ok l else
          match supInplace d .LandmarkManager with
          | some .LandmarkManager => groupsInplaceV d f l
          | some .Transformable => .error .notImpl
          | _ => .error .attr
        match lmsR with
        | .error er => .error er
        | .ok l' =>
          -- return self._transform_self_inplace(transform)
          match r.tSelf with
          | .PointCloud => .ok (.mk c (f p) l' e)
          | .Shape => .ok (.mk c p l' e)
          | _ => .error .attr
      | .Transformable => .error .notImpl
      | _ => .error .attr
def groupsInplaceV (d : Dispatch) (f : Arr → Arr) : Groups → Except Err Groups
  | .nil => .ok .nil
  | .cons n g r =>
    match inplaceV d f g with
    | .error er => .error er
    | .ok g' =>
      match groupsInplaceV d f r with
      | .error er => .error er
      | .ok r' => .ok (.cons n g' r')
end

/-- `Transformable._transform`: `copy_of_self = self.copy(); copy_of_self._transform_inplace(t)`.
On values a copy is the value itself; which `copy` runs only matters on the heap. -/
def applyV (d : Dispatch) (f : Arr → Arr) (s : Shape) : Except Err Shape :=
  match supTransform d (.shape s.cls), supCopy d (.shape s.cls) with
  | some .Transformable, some .Copyable => inplaceV d f s
  | some .Transformable, some .LabelledPointUndirectedGraph => inplaceV d f s
  | some .Transformable, _ => .error .unknown
  | _, _ => .error .attr

/-- what `Transform.apply` is given: a Transformable object or a bare array -/
inductive Arg where
  | shape (s : Shape)
  | array (a : Arr)

/-- `try: return x._transform(transform)  except AttributeError: return self._apply_batched(x, …)` -/
def applyAny (d : Dispatch) (f : Arr → Arr) : Arg → Except Err Arg
  | .shape s => (applyV d f s).map .shape
  | .array a => .ok (.array (f a))

/-! ### heap level -/

inductive Val where
  | imm (t : Int)        -- `None` is `imm 0`; numbers, strings, bools, tuples of those
  | ref (a : Nat)
deriving DecidableEq, Repr, Inhabited

abbrev Slots := List (String × Val)

inductive Cell where
  | arr (d : Arr)                 -- ndarray / scipy.sparse matrix: `.copy()` gives a fresh buffer
  | dict (fs : Slots)             -- dict / OrderedDict / list: `.copy()` is shallow
  | frozen (fs : Slots)           -- an object without `.copy`
  | obj (c : Cls) (fs : Slots)    -- instance of a menpo class, slots = `__dict__`
deriving DecidableEq, Repr, Inhabited

abbrev Heap := List Cell

/-- rebind attribute `x` (callers read the attribute first, so it is present) -/
def setSlot : Slots → String → Val → Slots
  | [], _, _ => []
  | (y, w) :: t, x, v => if y == x then (y, v) :: t else (y, w) :: setSlot t x v

/-- `for k, v in self.__dict__.items(): try: new[k] = v.copy() except AttributeError: new[k] = v` -/
def copySlots (rec : Heap → Val → Except Err (Heap × Val)) : Heap → Slots → Except Err (Heap × Slots)
  | h, [] => .ok (h, [])
  | h, (x, v) :: t =>
    match rec h v with
    | .ok (h1, v1) =>
      match copySlots rec h1 t with
      | .ok (h2, t2) => .ok (h2, (x, v1) :: t2)
      | .error e => .error e
    | .error .attr =>
      match copySlots rec h t with
      | .ok (h2, t2) => .ok (h2, (x, v) :: t2)
      | .error e => .error e
    | .error e => .error e

/-- `for k, v in d.items(): d[k] = v.copy()` — no `try` -/
def copyValues (rec : Heap → Val → Except Err (Heap × Val)) : Heap → Slots → Except Err (Heap × Slots)
  | h, [] => .ok (h, [])
  | h, (x, v) :: t =>
    match rec h v with
    | .ok (h1, v1) =>
      match copyValues rec h1 t with
      | .ok (h2, t2) => .ok (h2, (x, v1) :: t2)
      | .error e => .error e
    | .error e => .error e

/-- `new = Copyable.copy(self); for k, v in new.<x>.items(): new.<x>[k] = v.copy()`.  The dict `new.<x>`
was created by the generic phase and is visible to nobody else; it is re-allocated with the copied values
instead of being updated key by key (not observable). -/
def deepen (rec : Heap → Val → Except Err (Heap × Val)) (c : Cls) (x : String) (h1 : Heap) (fs1 : Slots) :
    Except Err (Heap × Val) :=
  match fs1.lookup x with
  | some (.ref dd) =>
    match h1[dd]? with
    | some (.dict gs) =>
      match copyValues rec h1 gs with
      | .ok (h2, gs2) =>
        .ok (h2 ++ [.dict gs2] ++ [.obj c (setSlot fs1 x (.ref h2.length))], .ref (h2.length + 1))
      | .error e => .error e
    | _ => .error .attr
  | _ => .error .attr

/-- `v.copy()` on heap `h` -/
def copy (d : Dispatch) : Nat → Heap → Val → Except Err (Heap × Val)
  | 0, _, _ => .error .fuel
  | _ + 1, _, .imm _ => .error .attr
  | n + 1, h, .ref a =>
    match h[a]? with
    | none => .error .attr
    | some (.arr x) => .ok (h ++ [.arr x], .ref h.length)
    | some (.dict fs) => .ok (h ++ [.dict fs], .ref h.length)
    | some (.frozen _) => .error .attr
    | some (.obj c fs) =>
      match supCopy d c with
      | some .Copyable =>
        match copySlots (copy d n) h fs with
        | .ok (h1, fs1) => .ok (h1 ++ [.obj c fs1], .ref h1.length)
        | .error e => .error e
      | some .LandmarkManager =>
        match copySlots (copy d n) h fs with
        | .ok (h1, fs1) => deepen (copy d n) c "_landmark_groups" h1 fs1
        | .error e => .error e
      | some .LabelledPointUndirectedGraph =>
        match copySlots (copy d n) h fs with
        | .ok (h1, fs1) => deepen (copy d n) c "_labels_to_masks" h1 fs1
        | .error e => .error e
      | _ => .error .unknown

/-- `self._landmarks is not None and self.landmarks.n_groups != 0`: the manager and its groups when true -/
def hasLandmarks (h : Heap) (fs : Slots) : Except Err (Option (Cls × Slots)) :=
  match fs.lookup "_landmarks" with
  | some (.imm 0) => .ok none
  | some (.ref l) =>
    match h[l]? with
    | some (.obj .LandmarkManager ls) =>
      match ls.lookup "_landmark_groups" with
      | some (.ref g) =>
        match h[g]? with
        | some (.dict gs) => if gs.isEmpty then .ok none else .ok (some (.LandmarkManager, gs))
        | _ => .error .attr
      | _ => .error .attr
    | _ => .error .attr
  | _ => .error .attr

/-- `for group in self._landmark_groups.values(): group._transform_inplace(transform)` -/
def inplaceGroups (rec : Heap → Val → Except Err Heap) : Heap → Slots → Except Err Heap
  | h, [] => .ok h
  | h, (_, v) :: t =>
    match rec h v with
    | .ok h1 => inplaceGroups rec h1 t
    | .error e => .error e

/-- `PointCloud._transform_self_inplace`: `self.points = transform(self.points)` — a new array is
allocated for what the transform returns and the attribute of object `a` is rebound to it -/
def selfInplace (f : Arr → Arr) (h : Heap) (a : Nat) : Except Err Heap :=
  match h[a]? with
  | some (.obj c fs) =>
    match fs.lookup "points" with
    | some (.ref p) =>
      match h[p]? with
      | some (.arr x) => .ok ((h ++ [Cell.arr (f x)]).set a (.obj c (setSlot fs "points" (.ref h.length))))
      | _ => .error .attr
    | _ => .error .attr
  | _ => .error .attr

/-- `if self.has_landmarks: self.landmarks._transform_inplace(transform)` -/
def landmarksInplace (d : Dispatch) (rec : Heap → Val → Except Err Heap) (h : Heap) (fs : Slots) :
    Except Err Heap :=
  match hasLandmarks h fs with
  | .error e => .error e
  | .ok none => .ok h
  | .ok (some (cl, gs)) =>
    match supInplace d cl with
    | some .LandmarkManager => inplaceGroups rec h gs
    | some .Transformable => .error .notImpl
    | _ => .error .attr

/-- `return self._transform_self_inplace(transform)`: the method is looked up on the class of the object (as it
is when the call is made: after the landmarks were transformed) -/
def selfStage (d : Dispatch) (f : Arr → Arr) (h1 : Heap) (a : Nat) : Except Err Heap :=
  match h1[a]? with
  | some (.obj c _) =>
    match supSelf d c with
    | some .PointCloud => selfInplace f h1 a
    | some .Shape => .ok h1
    | _ => .error .attr
  | _ => .error .attr

/-- `x._transform_inplace(transform)` on heap `h` -/
def inplace (d : Dispatch) (f : Arr → Arr) : Nat → Heap → Val → Except Err Heap
  | 0, _, _ => .error .fuel
  | _ + 1, _, .imm _ => .error .attr
  | n + 1, h, .ref a =>
    match h[a]? with
    | some (.obj c fs) =>
      match supInplace d c with
      | some .Shape =>
        -- Shape._transform_inplace
        match landmarksInplace d (inplace d f n) h fs with
        | .error e => .error e
        | .ok h1 =>
          -- return self._transform_self_inplace(transform)
          selfStage d f h1 a
      | some .LandmarkManager =>
        match fs.lookup "_landmark_groups" with
        | some (.ref g) =>
          match h[g]? with
          | some (.dict gs) => inplaceGroups (inplace d f n) h gs
          | _ => .error .attr
        | _ => .error .attr
      | some .Transformable => .error .notImpl
      | _ => .error .attr
    | _ => .error .attr

/-- `Transformable._transform` on the heap: the copy is transformed destructively and returned -/
def applyH (d : Dispatch) (f : Arr → Arr) (k : Nat) (h : Heap) (v : Val) : Except Err (Heap × Val) :=
  match v with
  | .ref a =>
    match h[a]? with
    | some (.obj c _) =>
      match supTransform d c with
      | some .Transformable =>
        match copy d k h v with
        | .ok (h1, v1) =>
          match inplace d f k h1 v1 with
          | .ok h2 => .ok (h2, v1)
          | .error e => .error e
        | .error e => .error e
      | _ => .error .attr
    | _ => .error .attr
  | _ => .error .attr

/-! ### "this address holds that shape" -/

/-- extras of array / immutable kind are where the value says -/
def RepX (h : Heap) (fs : Slots) (ex : Extra) : Prop :=
  ∀ x xv, (x, xv) ∈ ex → x ≠ "points" ∧
    match xv with
    | .imm t => fs.lookup x = some (.imm t)
    | .arr dd => ∃ b, fs.lookup x = some (.ref b) ∧ h[b]? = some (.arr dd)
    | .dict _ => True
    | .deep _ => True

/-- a labelled graph owns a dict of mask arrays (what its `copy` override walks) -/
def LabelOK (h : Heap) (c : SCls) (fs : Slots) : Prop :=
  c = .LabelledPointUndirectedGraph →
    ∃ m ms, fs.lookup "_labels_to_masks" = some (.ref m) ∧ h[m]? = some (.dict ms) ∧
      ∀ p, p ∈ ms → ∃ b dd, p.2 = .ref b ∧ h[b]? = some (.arr dd)

/- `Rep h s v`: value `v` on heap `h` is a shape object whose class, points, landmark groups (to every
depth) and array/immutable extras are those of `s`.  No assumption on where cells live or on sharing. -/
mutual
def Rep (h : Heap) : Shape → Val → Prop
  | .mk c x gs ex, v =>
    ∃ a fs p, v = .ref a ∧ h[a]? = some (.obj (.shape c) fs) ∧
      fs.lookup "points" = some (.ref p) ∧ h[p]? = some (.arr x) ∧ RepX h fs ex ∧ LabelOK h c fs ∧
      ((fs.lookup "_landmarks" = some (.imm 0) ∧ gs = .nil) ∨
       (∃ l ls g gvs, fs.lookup "_landmarks" = some (.ref l) ∧ h[l]? = some (.obj .LandmarkManager ls) ∧
          ls.lookup "_landmark_groups" = some (.ref g) ∧ h[g]? = some (.dict gvs) ∧ RepG h gs gvs))
def RepG (h : Heap) : Groups → Slots → Prop
  | .nil, gvs => gvs = []
  | .cons n g r, gvs => ∃ v t, gvs = (n, v) :: t ∧ Rep h g v ∧ RepG h r t
end

/- the same, and every *shape object* of the tree lives in `[lo, hi)`, the trees of sibling groups in
consecutive disjoint sub-intervals below the object that owns them -/
mutual
def RepIn (h : Heap) : Shape → Nat → Nat → Val → Prop
  | .mk c x gs ex, lo, hi, v =>
    ∃ a fs p m0 m, v = .ref a ∧ lo ≤ m0 ∧ m0 ≤ m ∧ m ≤ a ∧ a < hi ∧ h[a]? = some (.obj (.shape c) fs) ∧
      fs.lookup "points" = some (.ref p) ∧ h[p]? = some (.arr x) ∧ RepX h fs ex ∧ LabelOK h c fs ∧
      ((fs.lookup "_landmarks" = some (.imm 0) ∧ gs = .nil) ∨
       (∃ l ls g gvs, fs.lookup "_landmarks" = some (.ref l) ∧ h[l]? = some (.obj .LandmarkManager ls) ∧
          ls.lookup "_landmark_groups" = some (.ref g) ∧ h[g]? = some (.dict gvs) ∧ RepGIn h gs m0 m gvs))
def RepGIn (h : Heap) : Groups → Nat → Nat → Slots → Prop
  | .nil, lo, hi, gvs => gvs = [] ∧ lo ≤ hi
  | .cons n g r, lo, hi, gvs => ∃ v t m, gvs = (n, v) :: t ∧ RepIn h g lo m v ∧ RepGIn h r m hi t
end

/-- the landmark part of `RepIn`, named -/
def LmIn (h : Heap) (fs : Slots) (gs : Groups) (m0 m : Nat) : Prop :=
  (fs.lookup "_landmarks" = some (.imm 0) ∧ gs = .nil) ∨
  (∃ l ls g gvs, fs.lookup "_landmarks" = some (.ref l) ∧ h[l]? = some (.obj .LandmarkManager ls) ∧
    ls.lookup "_landmark_groups" = some (.ref g) ∧ h[g]? = some (.dict gvs) ∧ RepGIn h gs m0 m gvs)

/-- `h'` differs from `h` only by new cells and by rebinding `points` of shape objects in `[lo, hi)` -/
structure Frame (lo hi : Nat) (h h' : Heap) : Prop where
  len : h.length ≤ h'.length
  same : ∀ a, a < h.length → h'[a]? = h[a]? ∨
    (lo ≤ a ∧ a < hi ∧ ∃ c fs w, h[a]? = some (.obj (.shape c) fs) ∧
      h'[a]? = some (.obj (.shape c) (setSlot fs "points" w)))

/-! ### building and reading heaps (driver, examples) -/

/-! ### deep digests: everything reachable from a value, by content -/

def digestSlots (rec : Val → Option (List Tok)) : Slots → Option (List Tok)
  | [] => some []
  | (x, v) :: t =>
    match rec v, digestSlots rec t with
    | some a, some b => some (Tok.key x :: (a ++ b))
    | _, _ => none

def wrapTok (o : Tok) (r : Option (List Tok)) : Option (List Tok) := r.map fun ts => o :: (ts ++ [Tok.close])

/-- the deep digest of `v` on heap `h` (fuel bounds the nesting depth; `none`: out of fuel or dangling) -/
def digest : Nat → Heap → Val → Option (List Tok)
  | 0, _, _ => none
  | _ + 1, _, .imm t => some [.imm t]
  | n + 1, h, .ref a =>
    match h[a]? with
    | none => none
    | some (.arr x) => some [.arr x]
    | some (.dict fs) => wrapTok .dictO (digestSlots (digest n h) fs)
    | some (.frozen fs) => wrapTok .frozenO (digestSlots (digest n h) fs)
    | some (.obj c fs) => wrapTok (.objO c) (digestSlots (digest n h) fs)

def readsSlots (rec : Val → List Nat) : Slots → List Nat
  | [] => []
  | (_, v) :: t => rec v ++ readsSlots rec t

/-- the addresses `digest` looks at -/
def reads : Nat → Heap → Val → List Nat
  | 0, _, _ => []
  | _ + 1, _, .imm _ => []
  | n + 1, h, .ref a =>
    match h[a]? with
    | none => [a]
    | some (.arr _) => [a]
    | some (.dict fs) => a :: readsSlots (reads n h) fs
    | some (.frozen fs) => a :: readsSlots (reads n h) fs
    | some (.obj _ fs) => a :: readsSlots (reads n h) fs

/-- the attributes of a shape object other than `points` and `_landmarks`, in `__dict__` order -/
def filterX (fs : Slots) : Slots := fs.filter fun p => p.1 != "points" && p.1 != "_landmarks"

def xvToks : XV → List Tok
  | .imm t => [.imm t]
  | .arr d => [.arr d]
  | .dict items => Tok.dictO :: (items.flatMap fun it => [Tok.key it.1, Tok.arr it.2]) ++ [Tok.close]
  | .deep t => t

/-- the deep digest a shape object's other attributes must have -/
def exToks (ex : Extra) : List Tok := ex.flatMap fun e => Tok.key e.1 :: xvToks e.2

/-- allocation of the object graph a token stream describes (inverse of `digest`): a stack machine over the
stream.  A frame is an opened container with the items read so far and the pending key. -/
structure Frm where
  opener : Tok
  fs : Slots
  pending : Option String
deriving Repr, Inhabited

structure AllocSt where
  heap : Heap
  stack : List Frm
  result : Option Val
  bad : Bool
deriving Repr, Inhabited

def AllocSt.push (st : AllocSt) (v : Val) : AllocSt :=
  match st.stack with
  | [] => { st with result := some v }
  | fr :: rest =>
    match fr.pending with
    | some k => { st with stack := { fr with fs := fr.fs ++ [(k, v)], pending := none } :: rest }
    | none => { st with bad := true }

def allocStep (st : AllocSt) (t : Tok) : AllocSt :=
  match t with
  | .imm n => st.push (.imm n)
  | .arr d => { st with heap := st.heap ++ [Cell.arr d] }.push (.ref st.heap.length)
  | .dictO | .frozenO | .objO _ => { st with stack := ⟨t, [], none⟩ :: st.stack }
  | .key s =>
    match st.stack with
    | fr :: rest => { st with stack := { fr with pending := some s } :: rest }
    | [] => { st with bad := true }
  | .close =>
    match st.stack with
    | fr :: rest =>
      let cell : Cell := match fr.opener with
        | .objO c => .obj c fr.fs
        | .frozenO => .frozen fr.fs
        | _ => .dict fr.fs
      { st with heap := st.heap ++ [cell], stack := rest }.push (.ref st.heap.length)
    | [] => { st with bad := true }

def allocToks (h : Heap) (toks : List Tok) : Heap × Val :=
  let st := toks.foldl allocStep ⟨h, [], none, false⟩
  match st.result, st.bad, st.stack with
  | some v, false, [] => (st.heap, v)
  | _, _, _ => (h, .imm 0)

def xvAlloc (h : Heap) : XV → Heap × Val
  | .imm t => (h, .imm t)
  | .arr dd => (h ++ [.arr dd], .ref h.length)
  | .dict items =>
    let r := items.foldl (fun (acc : Heap × Slots) it =>
      (acc.1 ++ [Cell.arr it.2], acc.2 ++ [(it.1, .ref acc.1.length)])) (h, [])
    (r.1 ++ [.dict r.2], .ref r.1.length)
  | .deep toks => allocToks h toks

def extraAlloc (h : Heap) (ex : Extra) : Heap × Slots :=
  ex.foldl (fun (acc : Heap × Slots) e =>
    let r := xvAlloc acc.1 e.2
    (r.1, acc.2 ++ [(e.1, r.2)])) (h, [])

/- allocate a shape the way the constructors lay it out: `_landmarks` first, then `points`, then the rest;
a shape without groups has `_landmarks = None` -/
mutual
def build (h : Heap) : Shape → Heap × Val
  | .mk c p l e =>
    let (h1, lmv) : Heap × Val :=
      match l with
      | .nil => (h, .imm 0)
      | l =>
        let (hg, gvs) := buildGroups h l
        (hg ++ [.dict gvs] ++ [.obj .LandmarkManager [("_landmark_groups", .ref hg.length)]],
         .ref (hg.length + 1))
    let h2 := h1 ++ [.arr p]
    let (h3, xs) := extraAlloc h2 e
    (h3 ++ [.obj (.shape c) ([("_landmarks", lmv), ("points", .ref h1.length)] ++ xs)], .ref h3.length)
def buildGroups (h : Heap) : Groups → Heap × Slots
  | .nil => (h, [])
  | .cons n g r =>
    let (h1, v) := build h g
    let (h2, t) := buildGroups h1 r
    (h2, (n, v) :: t)
end

/-- fuel of the digests taken by the executable checks and the driver (nesting depth of an attribute) -/
def DFUEL : Nat := 12

def readXV (h : Heap) : Val → Option XV
  | .imm t => some (.imm t)
  | .ref b =>
    match h[b]? with
    | some (.arr dd) => some (.arr dd)
    | some (.dict ms) =>
      match (ms.mapM fun (p : String × Val) => match p.2 with
        | Val.ref q => match h[q]? with
          | some (Cell.arr dd) => some (p.1, dd)
          | _ => none
        | _ => none) with
      | some items => some (.dict items)
      | none => (digest DFUEL h (.ref b)).map XV.deep
    | some _ => (digest DFUEL h (.ref b)).map XV.deep
    | none => none

/-- read the shape at `v` back (fuel bounds the nesting depth); `none` when it is not a shape -/
def readShape : Nat → Heap → Val → Option Shape
  | 0, _, _ => none
  | _ + 1, _, .imm _ => none
  | n + 1, h, .ref a =>
    match h[a]? with
    | some (.obj (.shape c) fs) =>
      match fs.lookup "points" with
      | some (.ref p) =>
        match h[p]? with
        | some (.arr x) =>
          let gsR : Option Groups :=
            match fs.lookup "_landmarks" with
            | some (.imm 0) => some .nil
            | some (.ref l) =>
              match h[l]? with
              | some (.obj .LandmarkManager ls) =>
                match ls.lookup "_landmark_groups" with
                | some (.ref g) =>
                  match h[g]? with
                  | some (.dict gvs) =>
                    gvs.foldr (fun p acc =>
                      match readShape n h p.2, acc with
                      | some s, some r => some (.cons p.1 s r)
                      | _, _ => none) (some .nil)
                  | _ => none
                | _ => none
              | _ => none
            | _ => none
          let exR : Option Extra :=
            (fs.filter fun p => p.1 != "points" && p.1 != "_landmarks").mapM fun p =>
              (readXV h p.2).map fun xv => (p.1, xv)
          match gsR, exR with
          | some gs, some ex => some (.mk c x gs ex)
          | _, _ => none
        | _ => none
      | _ => none
    | _ => none

/-- addresses `< n` on which two heaps differ (driver: the frame check on concrete runs) -/
def changedBelow (n : Nat) (h h' : Heap) : List Nat :=
  (List.range n).filter fun a => decide (h'[a]? ≠ h[a]?)

/-! ### the attribute-kind table (regenerated from populated live instances, `Generated/C02Dispatch.lean`)

`Rep` speaks of attributes `points`, `_landmarks`, `_landmark_groups`, `_labels_to_masks` holding an
array, `None` or a manager, a dict of shapes, a dict of arrays.  `kindsWF` is the obligation that the live
objects are laid out like that and that every container of mutable values belongs to a class whose
resolved `copy` deepens it. -/

inductive AKind where
  | none        -- `None`
  | imm         -- bool, int, float, str, tuple of those, function
  | arr         -- numpy.ndarray
  | sparse      -- scipy.sparse matrix
  | objShape    -- instance of one of the 8 shape classes
  | objLM       -- LandmarkManager
  | objImage    -- Image
  | dictEmpty   -- empty dict / list
  | dictImm     -- dict / list of immutables
  | dictArr     -- dict of ndarrays
  | dictShape   -- dict of shapes
  | other
deriving DecidableEq, Repr, Inhabited

structure KRow where
  cls : Cls
  attrs : List (String × AKind)
deriving DecidableEq, Repr

def attrOK (d : Dispatch) (c : Cls) (x : String) (k : AKind) : Bool :=
  match k with
  | .other => false
  | .dictShape => c == .LandmarkManager && x == "_landmark_groups" && supCopy d c == some .LandmarkManager
  | .dictArr => x == "_labels_to_masks" && supCopy d c == some .LabelledPointUndirectedGraph
  | _ => true

def layoutOK (r : KRow) : Bool :=
  match r.cls with
  | .shape c =>
    r.attrs.lookup "points" == some .arr &&
    (r.attrs.lookup "_landmarks" == some .none || r.attrs.lookup "_landmarks" == some .objLM) &&
    (c != .LabelledPointUndirectedGraph || r.attrs.lookup "_labels_to_masks" == some .dictArr)
  | .LandmarkManager =>
    r.attrs.lookup "_landmark_groups" == some .dictShape || r.attrs.lookup "_landmark_groups" == some .dictEmpty
  | .Image => r.attrs.lookup "pixels" == some .arr
  | .other => false

def kindsWF (d : Dispatch) (tbl : List KRow) : Bool :=
  tbl.all fun r => layoutOK r && r.attrs.all fun a => attrOK d r.cls a.1 a.2

/-- every class of the dispatch table has been observed at least once -/
def kindsCover (d : Dispatch) (tbl : List KRow) : Bool :=
  d.all fun r => tbl.any fun k => k.cls == r.cls

end MenpoModel.C02
