/-
C19 — the places where menpo itself builds lazy lists from the file system
(`menpo/io/input/base.py`: `glob_with_suffix`, `importer_for_filepath`,
`_import_glob_lazy_list`).  Core Lean only.

A file is its identity plus the list `_possible_extensions_from_filepath` computes for it
(`"".join(suffixes[i:]).lower()` for every `i`, longest first), extensions being small codes.
The glob result handed to the model is the *sorted* `pathlib` listing (`sort = not shuffle`,
shuffle off): sorting is CPython's, what is menpo's — the suffix filter, the importer choice,
the `max_assets` window and the two refusals — is transcribed branch for branch.
-/

namespace MenpoModel.LazyList

structure FileEnt where
  id : Nat
  exts : List Nat      -- possible extensions, longest first
deriving Repr, DecidableEq

/-- `any(ext in extensions_map for ext in possible_exts)` -/
def extOk (known : List Nat) (f : FileEnt) : Bool := f.exts.any (known.contains ·)

/-- `glob_with_suffix`: the paths of the listing that have an importer, order kept -/
def globWithSuffix (known : List Nat) (files : List FileEnt) : List FileEnt :=
  files.filter (extOk known)

/-- `importer_for_filepath`: the first possible extension (longest first) that has an importer;
`none` is the `ValueError("… does not have a suitable importer")` -/
def importKind (known : List Nat) (f : FileEnt) : Option Nat := f.exts.find? (known.contains ·)

/-- the `max_assets` window of `_import_glob_lazy_list`:
`max_assets is not None and max_assets <= 0` → ValueError (`none`); a positive value truncates;
`None` keeps everything -/
def capAssets {α} (max : Option Int) (l : List α) : Option (List α) :=
  match max with
  | none => some l
  | some m => if m ≤ 0 then none else some (l.take m.toNat)

/-- the file paths `_import_glob_lazy_list` wraps: `none` = ValueError (bad `max_assets`, or nothing matched) -/
def globPaths (known : List Nat) (files : List FileEnt) (max : Option Int) : Option (List FileEnt) :=
  match capAssets max (globWithSuffix known files) with
  | none => none
  | some fp => if fp.length = 0 then none else some fp

end MenpoModel.LazyList
