/-
C20 (extension) — more of the anchored code inside the executable model.  Core Lean only (no Mathlib).

* the centre conventions of the objects `compositions.py` is given: `PointCloud.centre()` = centre of mass
  (`np.mean(points, axis=0)`; `TriMesh` inherits it: unreferenced vertices count), `Image.centre()` = `shape / 2`;
  `PointCloud.centre_of_bounds()` = midpoint of the bounding box is modelled too because it is the *other*
  convention the library offers (the about-centre helpers do not use it);
* `scale_about_centre`, `rotate_ccw_about_centre`, `shear_about_centre`, `transform_about_centre` as coded:
  dimension guards, the Homogeneous fast path and the TransformChain fall-back;
* the `Scale` factory with its `n_dims` argument, the dimension guards of `UniformScale` / `NonUniformScale`,
  `np.fill_diagonal`'s cyclic fill, scalar without `n_dims` (TypeError);
* `init_identity` of every class of the family, with the 2-D/3-D guard of the classes that have one;
* `tcoords_to_image_coords` built through the `Scale` factory (so the `h, w ≥ 2` guard is the factory's zero test);
* the decision part of `_axis_and_angle_of_rotation_3d` (number of real eigenvalues of modulus one);
* the table of constructors (class of the result, its dimension) compared with the live code on every run.
-/
import MenpoModel.Core.C20

namespace MenpoModel.C20

/-! ### centres -/

def V2.smul (k : Rat) (p : V2) : V2 := ⟨k * p.x, k * p.y⟩
def V2.sub (p q : V2) : V2 := ⟨p.x - q.x, p.y - q.y⟩
def V3.sub (p q : V3) : V3 := ⟨p.x - q.x, p.y - q.y, p.z - q.z⟩

def sum2 : List V2 → V2
  | [] => ⟨0, 0⟩
  | p :: ps => p.add (sum2 ps)
def sum3 : List V3 → V3
  | [] => ⟨0, 0, 0⟩
  | p :: ps => p.add (sum3 ps)

/-- `PointCloud.centre()`: `np.mean(self.points, axis=0)` -/
def centreOfMass2 (ps : List V2) : V2 := V2.smul (1 / (ps.length : Rat)) (sum2 ps)
def centreOfMass3 (ps : List V3) : V3 := V3.smul (1 / (ps.length : Rat)) (sum3 ps)

def rmin (a b : Rat) : Rat := if a ≤ b then a else b
def rmax (a b : Rat) : Rat := if a ≤ b then b else a
def minOf (d : Rat) : List Rat → Rat
  | [] => d
  | x :: xs => rmin x (minOf x xs)
def maxOf (d : Rat) : List Rat → Rat
  | [] => d
  | x :: xs => rmax x (maxOf x xs)

/-- `PointCloud.centre_of_bounds()`: `(min_b + max_b) / 2` -/
def centreOfBounds2 (ps : List V2) : V2 :=
  ⟨(minOf 0 (ps.map (·.x)) + maxOf 0 (ps.map (·.x))) / 2, (minOf 0 (ps.map (·.y)) + maxOf 0 (ps.map (·.y))) / 2⟩

/-- the objects the about-centre helpers are given, 2-D -/
inductive Obj2 where
  | cloud (pts : List V2)
  | mesh (pts : List V2) (tris : List (Nat × Nat × Nat))
  | image (h w : Nat)
deriving Repr

/-- 3-D -/
inductive Obj3 where
  | cloud (pts : List V3)
  | mesh (pts : List V3) (tris : List (Nat × Nat × Nat))
  | image (a b c : Nat)
deriving Repr

/-- `obj.centre()` as each class codes it -/
def Obj2.centre : Obj2 → V2
  | .cloud pts => centreOfMass2 pts
  | .mesh pts _ => centreOfMass2 pts
  | .image h w => ⟨(h : Rat) / 2, (w : Rat) / 2⟩
def Obj3.centre : Obj3 → V3
  | .cloud pts => centreOfMass3 pts
  | .mesh pts _ => centreOfMass3 pts
  | .image a b c => ⟨(a : Rat) / 2, (b : Rat) / 2, (c : Rat) / 2⟩

inductive Obj where
  | d2 (o : Obj2)
  | d3 (o : Obj3)
deriving Repr

def Obj.nDims : Obj → Nat
  | .d2 _ => 2
  | .d3 _ => 3

/-! ### the about-centre helpers as coded -/

inductive Err where
  | valueError
  | typeError
  | indexError
  | notImplementedError
deriving Repr, DecidableEq

def uscale3 (k : Rat) : Aff3 := ⟨⟨⟨k, 0, 0⟩, ⟨0, k, 0⟩, ⟨0, 0, k⟩⟩, ⟨0, 0, 0⟩⟩
def scale3 (kx ky kz : Rat) : Aff3 := ⟨⟨⟨kx, 0, 0⟩, ⟨0, ky, 0⟩, ⟨0, 0, kz⟩⟩, ⟨0, 0, 0⟩⟩

/-- a homogeneous transform of either dimension -/
inductive AffD where
  | a2 (m : Aff2)
  | a3 (m : Aff3)
deriving Repr, DecidableEq

/-- `scale_about_centre(obj, k)` for a scalar `k`: `UniformScale(k, obj.n_dims, skip_checks=True)` about the centre -/
def scaleAboutCentre : Obj → Rat → AffD
  | .d2 o, k => .a2 (aboutCentre2 o.centre (uscale2 k))
  | .d3 o, k => .a3 (aboutCentre3 o.centre (uscale3 k))

/-- `scale_about_centre(obj, [k₀, k₁])` for an array the length of the dimension: `np.fill_diagonal` writes the factors
on the diagonal, so the map is the per-axis scale about the centre -/
def scaleAboutCentreArr2 (o : Obj2) (kx ky : Rat) : Aff2 := aboutCentre2 o.centre (scale2 kx ky)

/-- `rotate_ccw_about_centre(obj, θ)`: ValueError unless the object is 2-D -/
def rotateCcwAboutCentre : Obj → Rat → Rat → Except Err Aff2
  | .d2 o, c, s => .ok (aboutCentre2 o.centre (rot2 c s))
  | .d3 _, _, _ => .error .valueError

/-- `shear_about_centre(obj, φ, ψ)`: ValueError unless the object is 2-D -/
def shearAboutCentre : Obj → Rat → Rat → Except Err Aff2
  | .d2 o, tp, ts => .ok (aboutCentre2 o.centre (shear2 tp ts))
  | .d3 _, _, _ => .error .valueError

/-- the fall-back of `transform_about_centre` for a transform that is not Homogeneous: the chain
`[Translation(−c), transform, Translation(c)]`, as a function on points -/
def aboutCentreFn2 (ctr : V2) (f : V2 → V2) (p : V2) : V2 := (f (p.add ctr.neg)).add ctr
def aboutCentreFn3 (ctr : V3) (f : V3 → V3) (p : V3) : V3 := (f (p.add ctr.neg)).add ctr

/-! ### the family's classes, `init_identity`, the `Scale` factory with `n_dims` -/

inductive Cls where
  | homogeneous | affine | similarity | translation | rotation | uniformScale | nonUniformScale | transformChain
deriving Repr, DecidableEq

def Cls.name : Cls → String
  | .homogeneous => "Homogeneous" | .affine => "Affine" | .similarity => "Similarity"
  | .translation => "Translation" | .rotation => "Rotation" | .uniformScale => "UniformScale"
  | .nonUniformScale => "NonUniformScale" | .transformChain => "TransformChain"

/-- does the constructor of the class check `n_dims ∈ {2, 3}`?  (`Translation`: through `Affine._set_h_matrix`'s check
in `Similarity.__init__`; `UniformScale` / `NonUniformScale`: their own; the others skip the check or have none) -/
def Cls.guards23 : Cls → Bool
  | .translation | .uniformScale | .nonUniformScale => true
  | _ => false

/-- `Cls.init_identity(n)`: the class of the result and its dimension, or ValueError -/
def initIdentity (k : Cls) (n : Nat) : Except Err (Cls × Nat) :=
  if k.guards23 && !(n == 2 || n == 3) then .error .valueError else .ok (k, n)

/-- the diagonal `np.fill_diagonal(np.eye(n+1), vals)` followed by `h[-1,-1] = 1` leaves on the first `n` entries:
the values are repeated cyclically -/
def fillDiagonal (vals : List Rat) (n : Nat) : List Rat :=
  (List.range n).map fun i => vals.getD (i % vals.length) 0

/-- the argument of `Scale`: a Python number or an array-like of factors -/
inductive ScaleArg where
  | scalar (k : Rat)
  | array (ks : List Rat)
deriving Repr, DecidableEq

/-- the object the factory returns: its class, dimension and the diagonal of its matrix -/
structure ScaleObj where
  cls : Cls
  nDims : Nat
  diag : List Rat
deriving Repr, DecidableEq

def mkUniformScale (vals : List Rat) (n : Nat) : Except Err ScaleObj :=
  if n == 2 || n == 3 then .ok ⟨.uniformScale, n, fillDiagonal vals n⟩ else .error .valueError
def mkNonUniformScale (ks : List Rat) : Except Err ScaleObj :=
  if ks.length == 2 || ks.length == 3 then .ok ⟨.nonUniformScale, ks.length, ks⟩ else .error .valueError

/-- `Scale(scale_factor, n_dims=None)` AS CODED (exactly equal / clearly different factors stand for `np.allclose`):
with `n_dims` given the argument goes to `UniformScale` whatever it is -/
def scaleFactoryCoded (arg : ScaleArg) (nDims : Option Nat) : Except Err ScaleObj :=
  match arg, nDims with
  | .scalar k, none => if k == 0 then .error .valueError else .error .typeError      -- `scale_factor[0]` on a float
  | .scalar k, some n => if k == 0 then .error .valueError else mkUniformScale [k] n
  | .array ks, none =>
      if ks.any (· == 0) then .error .valueError
      else match ks with
        | [] => .error .indexError            -- `np.all([])` holds, then `scale_factor[0]`
        | k :: _ => if ks.all (· == k) then mkUniformScale [k] ks.length else mkNonUniformScale ks
  | .array ks, some n =>
      if ks.any (· == 0) then .error .valueError
      else match ks with
        | [] => .error .indexError
        | _ :: _ => mkUniformScale ks n

/-- the factory REPAIRED (notes/fixes/C20-scale-factory-array-with-ndims.diff): differing factors given together with
`n_dims` make a `NonUniformScale` (their number must then be `n_dims`) -/
def scaleFactoryFixed (arg : ScaleArg) (nDims : Option Nat) : Except Err ScaleObj :=
  match arg, nDims with
  | .array ks, some n =>
      if ks.any (· == 0) then .error .valueError
      else match ks with
        | [] => .error .indexError
        | k :: _ =>
          if ks.all (· == k) then mkUniformScale ks n
          else if ks.length == n then mkNonUniformScale ks else .error .valueError
  | a, d => scaleFactoryCoded a d

/-- is the object what its class says: a `UniformScale` has one factor on the whole diagonal -/
def ScaleObj.honest (o : ScaleObj) : Bool :=
  match o.cls, o.diag with
  | .uniformScale, k :: rest => rest.all (· == k)
  | _, _ => true

/-- the 2-D matrix of a scale object -/
def ScaleObj.toAff2 (o : ScaleObj) : Option Aff2 :=
  match o.diag with
  | [kx, ky] => some (scale2 kx ky)
  | _ => none

/-! ### texture coordinates through the factory -/

/-- `tcoords_to_image_coords((h, w))` as coded: `invert_unit_y.compose_before(flip_xy_yx).compose_before(Scale(np.array(shape) - 1))`;
`none` = the factory's ValueError -/
def tcoordsToImageShape (h w : Nat) : Option Aff2 :=
  match scaleFactoryCoded (.array [(h : Rat) - 1, (w : Rat) - 1]) none with
  | .ok o => o.toAff2.map fun sc => sc.comp (flipXY.comp invertUnitY)
  | .error _ => none

/-- `image_coords_to_tcoords((h, w))` = `.pseudoinverse()` of the former -/
def imageToTcoordsShape (h w : Nat) : Option Aff2 := (tcoordsToImageShape h w).map Aff2.inv

/-! ### `_axis_and_angle_of_rotation_3d`: the decision that precedes the computation

The eigenvalues of the rotation with angle `(c, s)` are `1, c ± i s`.  The code keeps the real ones of modulus one
(`np.isreal`, `|λ| ∈ (1 − 1e-7, 1 + 1e-7)`) and answers `(None, None)` unless exactly one is left. -/
def nRealUnitEigenvalues (_c s : Rat) : Nat := if s == 0 then 3 else 1
def axisAngle3Defined (c s : Rat) : Bool := nRealUnitEigenvalues c s == 1

/-- the computation as coded, after the eigenvector `a` (unit: the code normalises it) and the random vector `r`:
`perp = a × (a − r)`; the code then normalises `perp` (a square root: contract), so the model returns the
un-normalised perpendicular together with its squared length, and `(cos, sin)` of the reported angle computed with
the exact unit vector `p` supplied by the caller (`p = perp / |perp|`) -/
def perpOf (a r : V3) : V3 := a.cross (a.add r.neg)

/-! ### the constructor table (compared with the live code on every run, `GenProps/C20.lean`) -/

structure CtorRow where
  owner : String        -- class (or module for functions)
  name : String         -- constructor
  arg : String          -- tag of the probe argument
  result : String       -- class of the result, or the kind of the exception
  nDims : Nat           -- dimension of the result (0 for an exception)
deriving Repr, DecidableEq

def exceptRow (owner name arg : String) (r : Except Err (Cls × Nat)) : CtorRow :=
  match r with
  | .ok (k, n) => ⟨owner, name, arg, k.name, n⟩
  | .error .valueError => ⟨owner, name, arg, "ValueError", 0⟩
  | .error .typeError => ⟨owner, name, arg, "TypeError", 0⟩
  | .error .indexError => ⟨owner, name, arg, "IndexError", 0⟩
  | .error .notImplementedError => ⟨owner, name, arg, "NotImplementedError", 0⟩

/-- the classes that define `init_identity` themselves -/
def identityClasses : List Cls :=
  [.affine, .homogeneous, .nonUniformScale, .rotation, .similarity, .translation, .uniformScale]

def identityRows : List CtorRow :=
  identityClasses.flatMap fun k => [1, 2, 3, 4].map fun n => exceptRow k.name "init_identity" s!"n_dims={n}" (initIdentity k n)

/-- the angle / quaternion / shear constructors: the class that defines them, the class and dimension of the result -/
def angleRows : List CtorRow :=
  [⟨"Affine", "init_from_2d_shear", "angles", "Affine", 2⟩,
   ⟨"Rotation", "init_3d_from_quaternion", "q", "Rotation", 3⟩,
   ⟨"Rotation", "init_from_2d_ccw_angle", "angle", "Rotation", 2⟩,
   ⟨"Rotation", "init_from_3d_ccw_angle_around_x", "angle", "Rotation", 3⟩,
   ⟨"Rotation", "init_from_3d_ccw_angle_around_y", "angle", "Rotation", 3⟩,
   ⟨"Rotation", "init_from_3d_ccw_angle_around_z", "angle", "Rotation", 3⟩]

/-- class of `Translation ∘ T ∘ Translation` as `compose_before` returns it (the composition ladder of C03 restricted
to what `transform_about_centre` does) -/
def aboutCentreCls : Cls → Cls
  | .translation => .translation
  | .rotation | .uniformScale | .similarity => .similarity
  | .affine | .nonUniformScale => .affine
  | .homogeneous => .homogeneous
  | .transformChain => .transformChain

def Cls.parent : Cls → Option Cls
  | .rotation | .translation | .uniformScale => some .similarity
  | .similarity | .nonUniformScale => some .affine
  | .affine => some .homogeneous
  | .homogeneous | .transformChain => none

/-- `issubclass(a, b)` inside the family -/
def Cls.isSub (a b : Cls) : Bool :=
  a == b || (match a.parent with
    | none => false
    | some p => p == b || (match p.parent with
      | none => false
      | some q => q == b || (match q.parent with
        | none => false
        | some r => r == b)))

/-- class of `a.compose_before(b)` for two members of the family: the ladder of `Homogeneous._compose_before`
(first common ancestor) — compared with the live classes on every run (`Generated.C20.composeTable`) -/
def composeCls (a b : Cls) : Cls :=
  if b.isSub a then a
  else if a.isSub b then b
  else if a.isSub .similarity && b.isSub .similarity then .similarity
  else if a.isSub .affine && b.isSub .affine then .affine
  else .homogeneous

/-- result of each about-centre function on an object of dimension `n` -/
def aboutRow (fn : String) (plain : Cls) (only2 : Bool) (n : Nat) : CtorRow :=
  exceptRow "compositions" fn s!"{n}D"
    (if only2 && n != 2 then .error .valueError else .ok (aboutCentreCls plain, n))

def compositionRows : List CtorRow :=
  [2, 3].flatMap fun n =>
    [aboutRow "rotate_ccw_about_centre" .rotation true n,
     aboutRow "scale_about_centre" .uniformScale false n,
     aboutRow "shear_about_centre" .affine true n,
     aboutRow "transform_about_centre" .affine false n]

def scaleObjRow (arg : String) (r : Except Err ScaleObj) : CtorRow :=
  exceptRow "scale" "Scale" arg (r.map fun o => (o.cls, o.nDims))

def scaleRows : List CtorRow :=
  [scaleObjRow "scalar,n_dims=2" (scaleFactoryCoded (.scalar 2) (some 2)),
   scaleObjRow "scalar,n_dims=3" (scaleFactoryCoded (.scalar 2) (some 3)),
   scaleObjRow "scalar,n_dims=4" (scaleFactoryCoded (.scalar 2) (some 4)),
   scaleObjRow "scalar" (scaleFactoryCoded (.scalar 2) none),
   scaleObjRow "zero,n_dims=2" (scaleFactoryCoded (.scalar 0) (some 2)),
   scaleObjRow "equal2" (scaleFactoryCoded (.array [2, 2]) none),
   scaleObjRow "equal3" (scaleFactoryCoded (.array [2, 2, 2]) none),
   scaleObjRow "equal4" (scaleFactoryCoded (.array [2, 2, 2, 2]) none),
   scaleObjRow "different2" (scaleFactoryCoded (.array [2, 3]) none),
   scaleObjRow "different3" (scaleFactoryCoded (.array [2, 3, 2]) none),
   scaleObjRow "different4" (scaleFactoryCoded (.array [2, 3, 4, 5]) none),
   scaleObjRow "withzero" (scaleFactoryCoded (.array [2, 0]) none)]

def tcoordsRow (fn : String) (h w : Nat) : CtorRow :=
  match tcoordsToImageShape h w with
  | some _ => ⟨"tcoords", fn, s!"{h}x{w}", "Homogeneous", 2⟩
  | none => ⟨"tcoords", fn, s!"{h}x{w}", "ValueError", 0⟩

def tcoordsRows : List CtorRow :=
  ["image_coords_to_tcoords", "tcoords_to_image_coords"].flatMap fun fn =>
    [tcoordsRow fn 1 5, tcoordsRow fn 5 5, tcoordsRow fn 5 7]

/-- the seven classes of the homogeneous family, in the order the harness probes them -/
def familyClasses : List Cls :=
  [.affine, .homogeneous, .nonUniformScale, .rotation, .similarity, .translation, .uniformScale]

/-- class of `transform_about_centre(obj, T)` for a `T` of every class of the family (2-D object) -/
def aboutClsRows : List CtorRow :=
  familyClasses.map fun k => ⟨"compositions", "transform_about_centre", "cls=" ++ k.name, (aboutCentreCls k).name, 2⟩

/-- class of `a.compose_before(b)` for every ordered pair of classes of the family (the ladder `composeCls`) -/
def ladderRows : List CtorRow :=
  familyClasses.flatMap fun a => familyClasses.map fun b =>
    ⟨"ladder", "compose_before", a.name ++ ">" ++ b.name, (composeCls a b).name, 2⟩

/-- which class supplies `_set_h_matrix` (method resolution; compared with the live classes on every run):
`Homogeneous` itself uses its own, every class of the affine family `Affine._set_h_matrix` -/
def Cls.setHIsAffine : Cls → Bool
  | .homogeneous | .transformChain => false
  | _ => true

/-- the class that supplies `_set_h_matrix` to every class of the family (method resolution order) -/
def setHRows : List CtorRow :=
  familyClasses.map fun k =>
    ⟨"mro", "_set_h_matrix", "cls=" ++ k.name, if k.setHIsAffine then "Affine" else "Homogeneous", 0⟩

/-- the whole table, in the order the harness writes it -/
def modelCtorTable : List CtorRow :=
  angleRows ++ identityRows ++ compositionRows ++ scaleRows ++ tcoordsRows ++ aboutClsRows ++ ladderRows ++ setHRows

end MenpoModel.C20
