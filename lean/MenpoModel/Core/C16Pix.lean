/-
C16 — the eight-bit range conversion of menpo/image/base.py (normalize_pixels_range, denormalize_pixels_range) on
IEEE binary64.  Core Lean only.  Part of the C16 model (`Core/C16.lean` imports this file).
-/

namespace MenpoModel.C16

/-! ## 3. Eight-bit range conversion on IEEE binary64 (Lean `Float`; `ofNat * / + - < toUInt64` reduce in
the kernel) -/

/-- `normalize_pixels_range` on uint8: `pixels * (1.0 / 255.0)` -/
def norm8 (k : Nat) : Float := Float.ofNat k * (1.0 / 255.0)

/-- `denormalize_pixels_range` as coded: `(pixels * 255.0).astype(np.uint8)` — the cast truncates -/
def denormTrunc (x : Float) : UInt64 := (x * 255.0).toUInt64

/-- round to nearest, ties to even (`np.round` / `np.rint`), for non-negative finite `y` -/
def rintF (y : Float) : UInt64 :=
  let n := y.toUInt64
  let d := y - Float.ofNat n.toNat
  if d < 0.5 then n else if d > 0.5 then n + 1
  else if n % 2 == 0 then n else n + 1

/-- the repaired conversion: `np.round(pixels * 255.0).astype(np.uint8)` -/
def denormRound (x : Float) : UInt64 := rintF (x * 255.0)

end MenpoModel.C16
