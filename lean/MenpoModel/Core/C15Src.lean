/-
C15 — the VOCABULARY of the source-text translation (harness/trans_c15.py, harness/py2lean2.py).  Core Lean only.

`Generated/C15Src.lean` is written on every run from the SOURCE TEXT of the current working tree
(menpo/shape/labelled.py, menpo/shape/graph.py: `PointUndirectedGraph.from_mask`, menpo/landmark/labels/base.py); every
Python expression of those functions is rewritten into one of the operations below.  Each operation stands for one
numpy / OrderedDict / menpo-constructor primitive, with the exception it raises:

  Python value                                     here
  -----------------------------------------------  -------------------------------------------------
  the `labels` argument (`str` or `list` of `str`)  `PyArg`  (`.nested` = a list holding a list: what `[labels]` makes of a list)
  an `OrderedDict` label -> value                   `ODict β` (ordered association list, first occurrence = position)
  a boolean ndarray, possibly 0-d                   `NpMask`  (`np.sum([], axis=0) > 0` is a 0-d scalar)
  an adjacency argument                             `Adj`     (an `(k, 2)` edge array or an `n × n` symmetric matrix)
  a `PointUndirectedGraph`                          `LGraph α` with `labels = []`
  a `LabelledPointUndirectedGraph`                  `LGraph α`

`GenProps/C15Src.lean` proves every translated function equal to the Core definition (Core/C15.lean, or the
code-shaped definitions at the end of this file) the property theorems are about.
-/
import MenpoModel.Core.C15Entry
import MenpoModel.Core.PyLoop

namespace MenpoModel.C15.Src
open MenpoModel.C15

/-! ### the `labels` argument -/

inductive PyArg
  | str (s : String)
  | list (ls : List String)
  | nested (ls : List String)
  deriving DecidableEq, Repr

def PyArg.ofArg : LabelsArg → PyArg
  | .str s => .str s
  | .list ls => .list ls

instance : Coe (List String) PyArg := ⟨PyArg.list⟩

/-- `isinstance(labels, str)` -/
def PyArg.isStr : PyArg → Bool
  | .str _ => true
  | _ => false

/-- `[labels]` -/
def PyArg.wrap : PyArg → PyArg
  | .str s => .list [s]
  | .list ls => .nested ls
  | .nested ls => .nested ls

def isInfixB : List Char → List Char → Bool
  | p, [] => p.isEmpty
  | p, c :: cs => p.isPrefixOf (c :: cs) || isInfixB p cs

/-- iteration: a `str` yields its characters -/
def PyArg.elems : PyArg → List String
  | .str s => s.toList.map fun c => String.singleton c
  | .list ls => ls
  | .nested _ => []

/-- `l in labels`: on a `str` this is the substring test -/
def PyArg.has : PyArg → String → Bool
  | .str s, l => isInfixB l.toList s.toList
  | .list ls, l => ls.contains l
  | .nested _, _ => false

/-! ### ordered dictionaries -/

structure ODict (β : Type) where
  items : List (String × β)
  deriving Repr

instance {β} [DecidableEq β] : DecidableEq (ODict β) := fun a b =>
  match a, b with
  | ⟨x⟩, ⟨y⟩ => if h : x = y then isTrue (by rw [h]) else isFalse (by intro h'; injection h' with h'; exact h h')

def lookupG {β} : List (String × β) → String → Option β
  | [], _ => none
  | (k, v) :: rest, l => if k == l then some v else lookupG rest l

def setG {β} : List (String × β) → String → β → List (String × β)
  | [], l, m => [(l, m)]
  | (k, v) :: rest, l, m => if k == l then (k, m) :: rest else (k, v) :: setG rest l m

def ODict.empty {β} : ODict β := ⟨[]⟩
def ODict.keys {β} (d : ODict β) : List String := d.items.map Prod.fst
def ODict.values {β} (d : ODict β) : List β := d.items.map Prod.snd
def ODict.has {β} (d : ODict β) (k : String) : Bool := (lookupG d.items k).isSome
/-- `d[k]` -/
def ODict.get {β} (d : ODict β) (k : String) : Except Err β :=
  match lookupG d.items k with
  | some v => .ok v
  | none => .error .key
/-- `d[k]` where the surrounding test has established `k in d` (inside a comprehension) -/
def ODict.getD {β} (d : ODict β) (k : String) (dflt : β) : β := (lookupG d.items k).getD dflt
/-- `d[k] = v` -/
def ODict.set {β} (d : ODict β) (k : String) (v : β) : ODict β := ⟨setG d.items k v⟩
/-- `d.pop(k)` (the popped value is not used) -/
def ODict.pop {β} (d : ODict β) (k : String) : Except Err (ODict β) :=
  match lookupG d.items k with
  | some _ => .ok ⟨d.items.filter fun p => p.1 != k⟩
  | none => .error .key
/-- `OrderedDict(pairs)` -/
def ODict.ofPairs {β} (ps : List (String × β)) : ODict β := ps.foldl (fun d p => d.set p.1 p.2) .empty
/-- `OrderedDict(zip(keys, values))` -/
def ODict.zip {β} (ks : List String) (vs : List β) : ODict β := .ofPairs (ks.zip vs)

/-! ### iteration, membership, truth value (what Python decides by the dynamic type) -/

class PyIter (c : Type) (e : outParam Type) where
  iter : c → List e
instance {a} : PyIter (List a) a := ⟨id⟩
instance : PyIter PyArg String := ⟨PyArg.elems⟩
instance {β} : PyIter (ODict β) String := ⟨ODict.keys⟩

class PyHas (c : Type) where
  has : c → String → Bool
instance : PyHas PyArg := ⟨PyArg.has⟩
instance : PyHas (List String) := ⟨fun l k => l.contains k⟩
instance {β} : PyHas (ODict β) := ⟨ODict.has⟩

class PyTruth (c : Type) where
  truth : c → Bool
instance : PyTruth Bool := ⟨id⟩
instance {a} : PyTruth (List a) := ⟨fun l => !l.isEmpty⟩
instance {β} : PyTruth (ODict β) := ⟨fun d => !d.items.isEmpty⟩

/-- `set(a).difference(b)`: some listing of the set (only its length is ever used outside a `raise`) -/
def pySetDiff (a : PyArg) (b : List String) : Except Err (List String) :=
  match a with
  | .nested _ => .error .type
  | a => .ok ((dedup a.elems).filter fun l => !b.contains l)

/-! ### boolean arrays -/

inductive NpMask
  | scalar (b : Bool)
  | arr (m : List Bool)
  deriving DecidableEq, Repr

instance : Coe (List Bool) NpMask := ⟨NpMask.arr⟩

/-- `np.sum(masks, axis=0) > 0` (masks of one common length; an empty list sums to the 0-d scalar `0.0`) -/
def npSumGt0 : List (List Bool) → NpMask
  | [] => .scalar false
  | m :: ms => .arr (orMasks m.length (m :: ms))

/-- `np.sum(masks, axis=0) == 0` -/
def npSumEq0 : List (List Bool) → NpMask
  | [] => .scalar true
  | m :: ms => .arr ((orMasks m.length (m :: ms)).map (!·))

def NpMask.any : NpMask → Bool
  | .scalar b => b
  | .arr m => m.any id
def NpMask.all : NpMask → Bool
  | .scalar b => b
  | .arr m => m.all id
/-- `mask.shape[0]`: a 0-d array has the empty shape tuple -/
def NpMask.shape0 : NpMask → Except Err Nat
  | .scalar _ => .error .index
  | .arr m => .ok m.length
/-- `a[mask]` -/
def maskIndex (a : List Bool) : NpMask → List Bool
  | .scalar _ => []
  | .arr m => maskFilter a m

/-- `mask[indices] = True` (numpy integer-array assignment; an index out of range is an `IndexError`) -/
def setTrueAt (mask : List Bool) (idx : List Int) : Except Err (List Bool) :=
  match normAll mask.length idx with
  | none => .error .index
  | some js => .ok ((List.range mask.length).map fun i => mask.getD i false || js.contains i)

/-! ### adjacency arguments and the graph constructor (menpo/shape/graph.py, outside the anchored files: modelled) -/

inductive Adj
  | edgeList (es : List (Int × Int))
  | matrix (n : Nat) (es : List (Nat × Nat))
  deriving DecidableEq, Repr

def Adj.shape0 : Adj → Nat
  | .edgeList es => es.length
  | .matrix n _ => n
def Adj.shape1 : Adj → Nat
  | .edgeList _ => 2
  | .matrix n _ => n

def edgeLE (a b : Nat × Nat) : Bool := a.1 < b.1 || (a.1 == b.1 && a.2 ≤ b.2)

/-- insert into a sorted duplicate-free edge list -/
def insertE (e : Nat × Nat) : List (Nat × Nat) → List (Nat × Nat)
  | [] => [e]
  | x :: xs => if e == x then x :: xs else if edgeLE e x then e :: x :: xs else x :: insertE e xs

/-- the upper triangle of the symmetric 0/1 matrix of an edge array, row-major (`graph.edges`) -/
def canonEdges (es : List (Int × Int)) : List (Nat × Nat) :=
  es.foldr (fun e acc => insertE (min e.1.toNat e.2.toNat, max e.1.toNat e.2.toNat) acc) []

/-- `_convert_edges_to_symmetric_adjacency_matrix(edges, n)`: `csr_matrix` refuses indices outside `0..n-1` -/
def convertEdges (a : Adj) (n : Nat) : Except Err Adj :=
  match a with
  | .edgeList es =>
    if es.any (fun e => e.1 < 0 || e.2 < 0 || e.1 ≥ n || e.2 ≥ n) then .error .value
    else .ok (.matrix n (canonEdges es))
  | .matrix _ _ => .error .type

/-- `PointUndirectedGraph.__init__(self, points, adjacency_matrix, copy, skip_checks)`: `_check_n_points`, then
`Graph.__init__` (at least one vertex, square, symmetric).  An `(k, 2)` array that reaches the constructor is read as
a matrix: only `k = 2` is square. -/
def puInit {α} (pts : List α) (adj : Adj) (skip : Bool) : Except Err (LGraph α) :=
  match adj with
  | .matrix n es =>
    if !skip && n != pts.length then .error .value
    else if !skip && n == 0 then .error .empty
    else .ok { pts := pts, edges := es, labels := [] }
  | .edgeList es =>
    match es with
    | [(a, b), (c, d)] =>
      if !skip && pts.length != 2 then .error .value
      else if !skip && b != c then .error .value
      else .ok { pts := pts, labels := [],
                 edges := (if a != 0 then [(0, 0)] else []) ++ (if b != 0 then [(0, 1)] else []) ++
                          (if d != 0 then [(1, 1)] else []) }
    | _ => if skip then .ok { pts := pts, edges := [], labels := [] } else .error .value

/-- `g.adjacency_matrix` of a built graph -/
def adjOf {α} (g : LGraph α) : Adj := .matrix g.pts.length g.edges

/-- `_mask_adjacency_matrix_and_points(mask, adjacency_matrix, points)` -/
def maskAdjPts {α} (mask : NpMask) (adj : Adj) (pts : List α) : Adj × List α :=
  match mask, adj with
  | .arr m, .matrix _ es => (.matrix (maskFilter pts m).length (inducedEdges m es), maskFilter pts m)
  | _, a => (a, [])


/-- the body of a helper function inlined at its call site (the identity: it fixes the type of the helper's result) -/
@[reducible] def inlined {τ : Type} (x : Except Err τ) : Except Err τ := x

/-- `x.shape[0]` -/
class PyShape (c : Type) where
  shape0 : c → Except Err Nat
  /-- the same where no exception is possible (inside `and` / `or`) -/
  shape0D : c → Nat
instance {a} : PyShape (List a) := ⟨fun l => .ok l.length, List.length⟩
instance : PyShape NpMask := ⟨NpMask.shape0, fun m => match m with | .scalar _ => 0 | .arr m => m.length⟩
instance : PyShape Adj := ⟨fun a => .ok a.shape0, Adj.shape0⟩

/-- `np.vstack(masks).shape[1]`: `vstack` refuses an empty list and rows of different lengths -/
def vstackWidth (ms : List (List Bool)) : Except Err Nat :=
  match ms with
  | [] => .error .value
  | m :: rest => if rest.all (fun r => r.length == m.length) then .ok m.length else .error .value

/-- `g._labels_to_masks.pop(k)` -/
def popLabel {α} (g : LGraph α) (k : String) : Except Err (LGraph α) :=
  match (ODict.mk g.labels).pop k with
  | .error e => .error e
  | .ok d => .ok { g with labels := d.items }

/-- `a[-1]`, `a[0]` on a 1-d array -/
def pyLast (a : List Int) : Except Err Int :=
  match a.getLast? with
  | some x => .ok x
  | none => .error .index
def pyHead (a : List Int) : Except Err Int :=
  match a.head? with
  | some x => .ok x
  | none => .error .index


/-! ### the vocabulary of the labelling functions (menpo/landmark/labels/**): index tables, connectivity, which points
are handed to which constructor.  A point cloud argument is the list of its points (`.points`, `.n_points` are all a
labelling function may read: any other use has no translation). -/

/-- what a labelling function builds: a class and the data of a (labelled) graph; a `TriMesh` carries the edges of its
triangles and no labels -/
structure Obj (α : Type) where
  cls : OutCls
  g : LGraph α
  deriving DecidableEq, Repr

class HasPoints (c : Type) (α : outParam Type) where
  points : c → List α
instance {α} : HasPoints (List α) α := ⟨id⟩
instance {α} : HasPoints (Obj α) α := ⟨fun o => o.g.pts⟩

/-- the statement `validate_input(pcloud, n)`: the cloud itself when it passes -/
def validated {α} (r : Except Err Unit) (p : List α) : Except Err (List α) :=
  match r with
  | .error e => .error e
  | .ok _ => .ok p

/-- `points[ind]` (numpy integer-array indexing: negative indices count from the end, out of range is an `IndexError`) -/
def takePts {α} (pts : List α) (ind : List Int) : Except Err (List α) :=
  match normAll pts.length ind with
  | none => .error .index
  | some js => .ok (gather pts js)

def lgraphObj {α} (r : Except Err (LGraph α)) : Except Err (Obj α) :=
  match r with
  | .error e => .error e
  | .ok g => .ok ⟨.lgraph, g⟩

def rangesObj {α} (r : Except Err (LGraph α × ODict (List Int))) : Except Err (Obj α × ODict (List Int)) :=
  match r with
  | .error e => .error e
  | .ok (g, m) => .ok (⟨.lgraph, g⟩, m)

def triEdges (t : List (List Int)) : List (Int × Int) :=
  t.flatMap fun tr => match tr with
    | [a, b, c] => [(a, b), (b, c), (c, a)]
    | _ => []

/-- `TriMesh(points, trilist=t)` (no check relates the triangle list to the points) -/
def triMesh {α} (pts : List α) (t : List (List Int)) : Obj α :=
  ⟨.trimesh, { pts := pts, edges := canonEdges (triEdges t), labels := [] }⟩

/-- `graph.edges` -/
def objEdges {α} (o : Obj α) : List (Int × Int) := o.g.edges.map fun e => ((e.1 : Int), (e.2 : Int))

/-- `obj.from_vector(points)`: same class, connectivity and labels over new points (as many as before) -/
def objFromVector {α} (o : Obj α) (pts : List α) : Except Err (Obj α) :=
  if pts.length != o.g.pts.length then .error .value else .ok { o with g := { o.g with pts := pts } }

/-- `np.roll(a, k)` -/
def npRoll (a : List Int) (k : Nat) : List Int :=
  if a.length == 0 then a else a.drop (a.length - k % a.length) ++ a.take (a.length - k % a.length)

/-- `a[:-k]` -/
def dropLastN {β} (k : Nat) (a : List β) : List β := a.take (a.length - k)

/-- the argument of `labeller_func`'s wrapper: an ndarray or a point cloud (of any subclass) -/
inductive InArg (α : Type)
  | array (pts : List α)
  | obj (o : Obj α)

def InArg.isArray {α} : InArg α → Bool
  | .array _ => true
  | .obj _ => false
/-- `PointCloud(x, copy=False)` -/
def InArg.toCloud {α} : InArg α → InArg α
  | .array pts => .obj ⟨.pointcloud, { pts := pts, edges := [], labels := [] }⟩
  | .obj o => .obj o
/-- what a labelling function reads of the cloud it is handed (an ndarray has no `.points`: `AttributeError`) -/
def InArg.points {α} : InArg α → Except Err (List α)
  | .array _ => .error .type
  | .obj o => .ok o.g.pts

/-- `labelling_method(x)` -/
def methodOn {α} (method : List α → Except Err (Obj α × ODict (List Int))) (x : InArg α) :
    Except Err (Obj α × ODict (List Int)) :=
  match x.points with
  | .error e => .error e
  | .ok p => method p

/-- what the wrapper returns: the object, and the mapping with `return_mapping=True` -/
class ToWrapOut (τ : Type) (α : outParam Type) where
  conv : τ → Obj α × Option (ODict (List Int))
instance {α} : ToWrapOut (Obj α × ODict (List Int)) α := ⟨fun r => (r.1, some r.2)⟩
instance {α} : ToWrapOut (Obj α) α := ⟨fun o => (o, none)⟩

/-- `label_func(group)` as `labeller()` uses it: `labeller_func`'s wrapper on a group of the landmark manager; the result
is stored with the dimensionality of the group it was computed from -/
def callOnGroup {α} (f : LabFunc) (s : Shape α) : Except Err (Shape α) :=
  match f.call { kind := .group, pts := s.g.pts, edges := s.g.edges, labels := s.g.labels } false with
  | .error e => .error e
  | .ok o => .ok { dim := s.dim, cls := o.cls, g := storedGraph o.cls o.g }

def insertN (x : Nat) : List Nat → List Nat
  | [] => [x]
  | y :: ys => if x == y then y :: ys else if x < y then x :: y :: ys else y :: insertN x ys

/-- the label -> indices mapping as the extraction records it: indices normalised, sorted, duplicates dropped -/
def normMapping (d : ODict (List Int)) (n : Nat) : List (String × List Nat) :=
  d.items.map fun p => (p.1, ((normAll n p.2).getD []).foldr insertN [])

/-! ### the code-shaped Core definitions the translations are proved equal to
(where Core/C15.lean is shaped differently, `Props/C15Src.lean` proves the two shapes equivalent) -/

/-- `_verify_all_labels_masked`, returning the group itself when it passes -/
def verifyCovered {α} (g : LGraph α) : Except Err (LGraph α) :=
  if (npSumEq0 (g.labels.map Prod.snd)).any then .error .value else .ok g

/-- `PointUndirectedGraph.from_mask` -/
def fromMaskC {α} (g : LGraph α) (mask : NpMask) : Except Err (LGraph α) :=
  match mask with
  | .scalar _ => .error .index
  | .arr m =>
    if m.length != g.pts.length then .error .value
    else if m.all id then .ok { pts := g.pts, edges := g.edges, labels := [] }
    else if (maskFilter g.pts m).isEmpty then .error .empty
    else .ok { pts := maskFilter g.pts m, edges := inducedEdges m g.edges, labels := [] }

/-- `LabelledPointUndirectedGraph.__init__`, check by check, with the adjacency argument -/
def constructC {α} (pts : List α) (adj : Adj) (labels : ODict (List Bool)) (copy skip : Bool) :
    Except Err (LGraph α) :=
  match puInit pts adj skip with
  | .error e => .error e
  | .ok g0 =>
    if labels.items.isEmpty then .error .value
    else match vstackWidth labels.values with
      | .error e => .error e
      | .ok w =>
        if w != pts.length then .error .value
        else match verifyCovered { g0 with labels := labels.items } with
          | .error e => .error e
          | .ok g1 => .ok (if copy then { g1 with labels := (ODict.ofPairs labels.items).items } else g1)

/-- `_new_group_with_only_labels(labels)` -/
def selectC {α} (g : LGraph α) (labels : PyArg) : Except Err (LGraph α) :=
  match pySetDiff labels g.names with
  | .error e => .error e
  | .ok sd =>
    if sd.length > 0 then .error .value
    else
      let masks := labels.elems.filterMap fun l => lookup g.labels l
      let ov := npSumGt0 masks
      match fromMaskC g ov with
      | .error e => .error e
      | .ok ng => constructC ng.pts (adjOf ng) (ODict.zip labels.elems (masks.map fun m => maskIndex m ov)) true false

/-- `with_labels(labels)` -/
def withLabelsC {α} (g : LGraph α) (labels : PyArg) : Except Err (LGraph α) :=
  selectC g (if labels.isStr then labels.wrap else labels)

/-- `without_labels(labels)` -/
def withoutLabelsC {α} (g : LGraph α) (labels : PyArg) : Except Err (LGraph α) :=
  let a := if labels.isStr then labels.wrap else labels
  selectC g (.list (g.names.filter fun l => !a.has l))

/-- `get_label(label)` -/
def getLabelC {α} (g : LGraph α) (l : String) : Except Err (LGraph α) :=
  match lookup g.labels l with
  | none => .error .key
  | some m => fromMaskC g (.arr m)

/-- `add_label(label, indices)` -/
def addLabelC {α} (g : LGraph α) (l : String) (idx : List Int) : Except Err (LGraph α) :=
  match setTrueAt (List.replicate g.pts.length false) idx with
  | .error e => .error e
  | .ok m => verifyCovered { g with labels := setLabel g.labels l m }

/-- `remove_label(label)` -/
def removeLabelC {α} (g : LGraph α) (l : String) : Except Err (LGraph α) :=
  match popLabel g l with
  | .error e => .error e
  | .ok g' => verifyCovered g'

/-- one iteration of the loop of `indices_to_masks` -/
def indicesToMasksStep (d : ODict (List Int)) (n : Nat) (masks : ODict (List Bool)) (l : String) :
    Except Err (ODict (List Bool)) :=
  match setTrueAt (List.replicate n false) (d.getD l []) with
  | .error e => .error e
  | .ok m => .ok (masks.set l m)

/-- `indices_to_masks(labels_to_indices, n_points)`: the loop stops at the first `IndexError` -/
def indicesToMasksC (d : ODict (List Int)) (n : Nat) : Except Err (ODict (List Bool)) :=
  d.keys.foldlM (indicesToMasksStep d n) .empty

/-- `init_from_indices_mapping(points, adjacency, labels_to_indices, copy)`: an `(k, 2)` array with `k ≠ 2` is an
edge list; everything else goes to the constructor as it is -/
def initFromIndicesC {α} (pts : List α) (adj : Adj) (d : ODict (List Int)) (copy : Bool) : Except Err (LGraph α) :=
  let adj' : Except Err Adj :=
    if adj.shape0 != adj.shape1 && adj.shape1 == 2 then convertEdges adj pts.length else .ok adj
  match adj' with
  | .error e => .error e
  | .ok a => match indicesToMasksC d pts.length with
    | .error e => .error e
    | .ok masks => constructC pts a masks copy false

/-- `init_with_all_label(points, adjacency_matrix, copy)` -/
def initWithAllLabelC {α} (pts : List α) (adj : Adj) (copy : Bool) : Except Err (LGraph α) :=
  constructC pts adj (.ofPairs [("all", List.replicate pts.length true)]) copy false

/-- `validate_input` -/
def validateInput (nActual nExpected : Nat) : Except Err Unit :=
  if nActual != nExpected then .error .labelling else .ok ()

/-- `connectivity_from_array(array, close_loop)`: closing the loop of an empty array is an `IndexError` -/
def connFromArray (a : List Int) (close : Bool) : Except Err (List (Int × Int)) :=
  if close then
    match pyLast a with
    | .error e => .error e
    | .ok l => match pyHead a with
      | .error e => .error e
      | .ok h => .ok (a.zip (a.drop 1) ++ [(l, h)])
  else .ok (a.zip (a.drop 1))

/-- `np.arange(a, b)` -/
def arange (a b : Int) : List Int := (List.range (b - a).toNat).map fun (i : Nat) => a + (i : Int)

/-- one iteration of the loop of `pcloud_and_lgroup_from_ranges` -/
def fromRangesStep (st : List (List (Int × Int)) × ODict (List Int)) (p : String × Int × Int × Bool) :
    Except Err (List (List (Int × Int)) × ODict (List Int)) :=
  match connFromArray (arange p.2.1 p.2.2.1) p.2.2.2 with
  | .error e => .error e
  | .ok c => .ok (st.1 ++ [c], st.2.set p.1 (arange p.2.1 p.2.2.1))

/-- `pcloud_and_lgroup_from_ranges(pointcloud, labels_to_ranges)` -/
def fromRangesC {α} (pts : List α) (d : ODict (Int × Int × Bool)) : Except Err (LGraph α × ODict (List Int)) :=
  match d.items.foldlM fromRangesStep ([], .empty) with
  | .error e => .error e
  | .ok st => match initFromIndicesC pts (.edgeList st.1.flatten) st.2 true with
    | .error e => .error e
    | .ok g => .ok (g, st.2)

end MenpoModel.C15.Src
