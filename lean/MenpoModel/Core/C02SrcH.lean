/-
C02 — the HEAP-LEVEL vocabulary of the source-to-Lean translation (harness/trans_c02.py) and the hand-written
methods the translated ones are proved equal to (GenProps/C02SrcH.lean).  Core Lean only.

The same source text as at value level (Core/C02Src.lean) is read with another vocabulary: a Python object is a cell
at an address, `self.x` reads a slot, `self.x = v` rebinds it, `transform(arr)` allocates the array the closure
returns, `LandmarkManager()` allocates, a method call goes through the method-resolution table on the class of the
cell the receiver refers to.  A method is a state transformer that may raise and that hands back the heap in either
case: `HM α = Heap → Heap × Except Err α`, so that "what has been written when the call raised" can be stated.

Translated at this level:
  Landmarkable.has_landmarks, Landmarkable.landmarks (the getter CREATES an empty manager when there is none),
  LandmarkManager.n_groups, Shape._transform_inplace, Shape._transform_self_inplace,
  PointCloud._transform_self_inplace, LandmarkManager._transform_inplace, Transformable._transform_inplace,
  Transformable._transform.   (`x.copy()` is the model's `copy`: that method belongs to property C06.)
`hTransform` resolves them through the table; Props/C02SrcH.lean proves that over `coreHMethods` it IS the model's
`applyH` (on every heap, for closures that do not raise), so every heap theorem is a theorem about these methods.
-/
import MenpoModel.Core.C02Src
import MenpoModel.Core.C02Deep

namespace MenpoModel.C02

/-- a heap transformer that may raise; the heap is handed back in either case -/
abbrev HM (α : Type) := Heap → Heap × Except Err α

namespace HM

def ok {α : Type} (a : α) : HM α := fun h => (h, .ok a)

def err {α : Type} (e : Err) : HM α := fun h => (h, .error e)

def bind {α β : Type} (m : HM α) (k : α → HM β) : HM β := fun h =>
  match m h with
  | (h1, .ok a) => k a h1
  | (h1, .error e) => (h1, .error e)

/-- `for it in xs: state = body(state, it)` -/
def forLoop {σ α : Type} (init : σ) (xs : List α) (f : σ → α → HM σ) : HM σ :=
  match xs with
  | [] => ok init
  | x :: rest => bind (f init x) fun s => forLoop s rest f

end HM

/-- the heap a run ends in, when it returns -/
def exceptHeap {α : Type} (p : Heap × Except Err α) : Except Err Heap :=
  match p.2 with
  | .ok _ => .ok p.1
  | .error e => .error e

/-- heap and value a run ends in, when it returns -/
def exceptBoth {α : Type} (p : Heap × Except Err α) : Except Err (Heap × α) :=
  match p.2 with
  | .ok a => .ok (p.1, a)
  | .error e => .error e

/-! ### the vocabulary -/

/-- `v is None` -/
def Val.isNone : Val → Bool
  | .imm 0 => true
  | _ => false

/-- `v.x` (an instance attribute) -/
def getAttr (v : Val) (x : String) : HM Val := fun h =>
  match v with
  | .ref a =>
    match h[a]? with
    | some (.obj _ fs) =>
      match fs.lookup x with
      | some w => (h, .ok w)
      | none => (h, .error .attr)
    | _ => (h, .error .attr)
  | .imm _ => (h, .error .attr)

/-- `v.x = w` (rebinding of an attribute the object has) -/
def setAttr (v : Val) (x : String) (w : Val) : HM Unit := fun h =>
  match v with
  | .ref a =>
    match h[a]? with
    | some (.obj c fs) => (h.set a (.obj c (setSlot fs x w)), .ok ())
    | _ => (h, .error .attr)
  | .imm _ => (h, .error .attr)

/-- `transform(v)` for an array `v`: the closure's result is a NEW array -/
def callFn (f : Fn) (v : Val) : HM Val := fun h =>
  match v with
  | .ref p =>
    match h[p]? with
    | some (.arr x) =>
      match f x with
      | .ok y => (h ++ [Cell.arr y], .ok (.ref h.length))
      | .error e => (h, .error e)
    | _ => (h, .error .attr)
  | .imm _ => (h, .error .attr)

/-- `len(v)` for a dict -/
def dictLen (v : Val) : HM Int := fun h =>
  match v with
  | .ref g =>
    match h[g]? with
    | some (.dict gs) => (h, .ok (gs.length : Int))
    | _ => (h, .error .attr)
  | .imm _ => (h, .error .attr)

/-- `v.values()` for a dict -/
def dictValues (v : Val) : HM (List Val) := fun h =>
  match v with
  | .ref g =>
    match h[g]? with
    | some (.dict gs) => (h, .ok (gs.map Prod.snd))
    | _ => (h, .error .attr)
  | .imm _ => (h, .error .attr)

/-- `LandmarkManager()`: an empty `_landmark_groups` dict and the manager that owns it -/
def newManager : HM Val := fun h =>
  (h ++ [Cell.dict [], Cell.obj .LandmarkManager [("_landmark_groups", .ref h.length)]], .ok (.ref (h.length + 1)))

/-- `type(v)` of an instance of a menpo class -/
def clsOf (v : Val) : HM Cls := fun h =>
  match v with
  | .ref a =>
    match h[a]? with
    | some (.obj c _) => (h, .ok c)
    | _ => (h, .error .attr)
  | .imm _ => (h, .error .attr)

/-- `v.<property>` where the property is defined by class `c` only -/
def propOn {α : Type} (c : Cls) (body : Val → HM α) (v : Val) : HM α :=
  HM.bind (clsOf v) fun c' => if c' == c then body v else HM.err .attr

/-- `v.copy()`: the model's `copy` (Core/C02.lean) through the method-resolution table -/
def hCopy (d : Dispatch) (fuel : Nat) (v : Val) : HM Val := fun h =>
  match copy d fuel h v with
  | .ok (h1, v1) => (h1, .ok v1)
  | .error e => (h, .error e)

/-! ### the translated methods as a record, and method resolution over it -/

structure HMethods where
  /-- `LandmarkManager.n_groups` -/
  nGroups : Val → HM Int
  /-- `Landmarkable.landmarks` -/
  landmarks : Val → HM Val
  /-- `Landmarkable.has_landmarks` -/
  hasLandmarks : Val → HM Bool
  /-- `Shape._transform_inplace (callM: self.landmarks._transform_inplace, callSelf: self._transform_self_inplace)` -/
  shapeInplace : (Val → Fn → HM Val) → (Val → Fn → HM Val) → Val → Fn → HM Val
  /-- `Shape._transform_self_inplace` -/
  shapeSelf : Val → Fn → HM Val
  /-- `PointCloud._transform_self_inplace` -/
  pcSelf : Val → Fn → HM Val
  /-- `LandmarkManager._transform_inplace (callS: group._transform_inplace)` -/
  lmInplace : (Val → Fn → HM Val) → Val → Fn → HM Val
  /-- `Transformable._transform_inplace` -/
  tInplace : Val → Fn → HM Val
  /-- `Transformable._transform (callCopy: self.copy, callI: copy_of_self._transform_inplace)` -/
  transform : (Val → HM Val) → (Val → Fn → HM Val) → Val → Fn → HM Val

/-- `v._transform_self_inplace(t)` -/
def hSelf (m : HMethods) (d : Dispatch) (v : Val) (t : Fn) : HM Val :=
  HM.bind (clsOf v) fun c =>
    match supSelf d c with
    | some .PointCloud => m.pcSelf v t
    | some .Shape => m.shapeSelf v t
    | _ => HM.err .attr

/-- `manager._transform_inplace(t)` as called from `Shape._transform_inplace`; `rec` is `group._transform_inplace` -/
def hInplaceM (m : HMethods) (d : Dispatch) (rec : Val → Fn → HM Val) (v : Val) (t : Fn) : HM Val :=
  HM.bind (clsOf v) fun c =>
    match supInplace d c with
    | some .LandmarkManager => m.lmInplace rec v t
    | some .Transformable => m.tInplace v t
    | _ => HM.err .attr

/-- `v._transform_inplace(t)` (fuel: nesting depth of landmark groups, Python's recursion limit) -/
def hInplace (m : HMethods) (d : Dispatch) : Nat → Val → Fn → HM Val
  | 0, _, _ => HM.err .fuel
  | n + 1, v, t =>
    HM.bind (clsOf v) fun c =>
      match supInplace d c with
      | some .Shape => m.shapeInplace (hInplaceM m d (hInplace m d n)) (hSelf m d) v t
      | some .LandmarkManager => m.lmInplace (hInplace m d n) v t
      | some .Transformable => m.tInplace v t
      | _ => HM.err .attr

/-- `v._transform(t)`: what `Transform.apply` calls on a Transformable -/
def hTransform (m : HMethods) (d : Dispatch) (fuel : Nat) (v : Val) (t : Fn) : HM Val :=
  HM.bind (clsOf v) fun c =>
    match supTransform d c with
    | some .Transformable => m.transform (hCopy d fuel) (hInplace m d fuel) v t
    | _ => HM.err .attr

/-- a history of calls `results.append(t.apply(x))` on initial objects and earlier results (`Call`: Core/C02Deep.lean),
every call through the methods of `m` -/
def hRun (m : HMethods) (d : Dispatch) : List Call → List Val → HM (List Val)
  | [], vs => HM.ok vs
  | c :: cs, vs =>
    match vs[c.src]? with
    | none => HM.err .attr
    | some v => HM.bind (hTransform m d c.fuel v (okFn c.f)) fun v' => hRun m d cs (vs ++ [v'])

/-! ### the hand-written methods -/

def coreNGroups (self : Val) : HM Int :=
  HM.bind (getAttr self "_landmark_groups") fun g => dictLen g

def coreLandmarks (self : Val) : HM Val :=
  HM.bind (getAttr self "_landmarks") fun l =>
    if l.isNone then
      HM.bind newManager fun m => HM.bind (setAttr self "_landmarks" m) fun _ => getAttr self "_landmarks"
    else getAttr self "_landmarks"

def coreHasLandmarksH (self : Val) : HM Bool :=
  HM.bind (getAttr self "_landmarks") fun l =>
    if l.isNone then HM.ok false
    else HM.bind (coreLandmarks self) fun m => HM.bind (propOn .LandmarkManager coreNGroups m) fun n => HM.ok (n != 0)

def coreShapeInplaceH (callM callSelf : Val → Fn → HM Val) (self : Val) (t : Fn) : HM Val :=
  HM.bind (coreHasLandmarksH self) fun b =>
    if b then HM.bind (coreLandmarks self) fun m => HM.bind (callM m t) fun _ => callSelf self t
    else callSelf self t

def corePcSelfH (self : Val) (t : Fn) : HM Val :=
  HM.bind (getAttr self "points") fun p => HM.bind (callFn t p) fun q =>
    HM.bind (setAttr self "points" q) fun _ => HM.ok self

def coreLmInplaceH (callS : Val → Fn → HM Val) (self : Val) (t : Fn) : HM Val :=
  HM.bind (getAttr self "_landmark_groups") fun g => HM.bind (dictValues g) fun vs =>
    HM.bind (HM.forLoop () vs fun _ it => HM.bind (callS it t) fun _ => HM.ok ()) fun _ => HM.ok self

def coreHMethods : HMethods where
  nGroups := coreNGroups
  landmarks := coreLandmarks
  hasLandmarks := coreHasLandmarksH
  shapeInplace := coreShapeInplaceH
  shapeSelf := fun _ _ => HM.ok (.imm 0)
  pcSelf := corePcSelfH
  lmInplace := coreLmInplaceH
  tInplace := fun _ _ => HM.err .notImpl
  transform := fun callCopy callI self t =>
    HM.bind (callCopy self) fun c => HM.bind (callI c t) fun _ => HM.ok c

end MenpoModel.C02
